(* CodeCtor.v — LongTermKey::new and Responder::new as translated on this run: the server's identity is
   computed from the seed alone, and every responder certifies its fresh online key with it. *)
Require Import RV.Model.Bytes RV.Gen.Tables RV.Model.Tag RV.Model.Message RV.Model.Merkle RV.Model.Keys
        RV.Model.Server RV.Model.GenSupport RV.Gen.Code RV.Spec.MerkleGoals.
Require Import RV.Proofs.CodeLib RV.Proofs.CodeSrv RV.Proofs.CodeCert.
From Coq Require Import NArith List.
Import ListNotations.
Local Open Scope N_scope.

(* LongTermKey::new: (signer, srv_value) = (the seed, SHA-512(0xff || public key)[0..32]) *)
Theorem gen_ltk_new_model : forall H, HashLen H -> forall ed_pk seed,
  gen_ltk_new ed_pk H seed = Ok (seed, ltk_srv_value H ed_pk seed).
Proof.
  intros H HL ed_pk seed. unfold gen_ltk_new, ltk_srv_value. cbv zeta.
  rewrite (gen_calc_srv_value_model H HL). reflexivity.
Qed.

(* the two accessors of the long-term key built from a seed: public_key() is the Ed25519 public key OF THAT
   SEED (what the server announces at start-up is the key whose private half signs the delegation) and
   srv_value() is the SRV value derived from it *)
Theorem gen_ltk_accessors_model : forall H, HashLen H -> forall ed_pk seed,
  obind (gen_ltk_new ed_pk H seed) (fun k => gen_ltk_public_key ed_pk (fst k)) = Ok (ed_pk seed)
  /\ obind (gen_ltk_new ed_pk H seed) (fun k => gen_ltk_srv_value (snd k)) = Ok (ltk_srv_value H ed_pk seed).
Proof.
  intros H HL ed_pk seed. rewrite (gen_ltk_new_model H HL). split; reflexivity.
Qed.

(* Responder::new: the certificate is make_cert of the long-term seed over the fresh online key, the
   request list is empty, the tree is new; same value as the model or both fail *)
Theorem gen_responder_new_model : forall ed_pk ed_sign v lt online_seed,
  ok_opt (gen_responder_new online_seed ed_pk ed_sign v tt lt) = ok_opt (responder_new ed_pk ed_sign v lt online_seed).
Proof.
  intros ed_pk ed_sign v lt online_seed. unfold gen_responder_new, responder_new. cbv zeta.
  rewrite !oo_bind. rewrite gen_make_cert_model.
  destruct (ok_opt (make_cert ed_pk ed_sign v lt online_seed)) as [cert|]; cbn [obo]; [|reflexivity].
  rewrite !oo_bind, oo_unwrap_p, oo_unwrap.
  destruct (ok_opt (encode cert)) as [cb|]; reflexivity.
Qed.

(* ------------------------------------------------------------------ from the configuration to the identity *)
Require Import RV.Model.Config RV.Model.ConfigLoad.
From Coq Require Import ZArith.

(* kms::load_seed of the default build: the configured seed itself for `plaintext`, a refusal otherwise *)
Theorem gen_load_seed_model : forall c,
  gen_load_seed c = match lc_kms c with KPlaintext => Ok (lc_seed c) | _ => Err InvalidConfiguration end.
Proof. intros c. unfold gen_load_seed. destruct (lc_kms c); reflexivity. Qed.

(* Server::new's key set-up, through the translated pieces: the seed the configuration holds is loaded as it
   is, and the identity (signer, SRV value) is computed from it alone *)
Theorem gen_identity_from_config : forall H, HashLen H -> forall ed_pk c seed,
  gen_load_seed c = Ok seed ->
  seed = lc_seed c /\ lc_kms c = KPlaintext /\
  gen_ltk_new ed_pk H seed = Ok (lc_seed c, ltk_srv_value H ed_pk (lc_seed c)).
Proof.
  intros H HL ed_pk c seed Hs. rewrite gen_load_seed_model in Hs.
  destruct (lc_kms c) eqn:Ek; try discriminate Hs. injection Hs as <-.
  split; [reflexivity|]. split; [reflexivity|]. apply gen_ltk_new_model. exact HL.
Qed.
