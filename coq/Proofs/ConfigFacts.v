Require Import RV.Model.Config.
From Coq Require Import ZArith Bool Lia ZifyBool.
Local Open Scope Z_scope.

Lemma config_faithful : forall s k z v, effective s k z = Running v -> v = z /\ (0 <= z <= type_max s k).
Proof.
  intros s k z v. unfold effective, load.
  destruct ((0 <=? z) && (z <=? type_max s k)) eqn:E; [|discriminate].
  destruct (valid k z); [|discriminate]. intro H. injection H as <-. lia.
Qed.

Lemma config_running_in_range : forall s k z v,
  effective s k z = Running v -> v = z /\ in_range s k z = true.
Proof.
  intros s k z v H. pose proof (config_faithful _ _ _ _ H) as [-> Hr]. split; [reflexivity|].
  unfold effective, load in H.
  destruct ((0 <=? z) && (z <=? type_max s k)) eqn:E; [|discriminate].
  destruct (valid k z) eqn:V; [|discriminate].
  destruct s, k; cbn [type_max valid in_range] in *; lia.
Qed.

Lemma config_refuses : forall s k z,
  (k = CPort \/ k = CBatch \/ k = CFault \/ k = CWorkers) ->
  in_range s k z = false -> effective s k z = Refused.
Proof.
  intros s k z Hk Hr. unfold effective, load.
  destruct ((0 <=? z) && (z <=? type_max s k)) eqn:E; [|reflexivity].
  destruct (valid k z) eqn:V; [|reflexivity]. exfalso.
  destruct Hk as [-> | [-> | [-> | ->]]]; destruct s; cbn [type_max valid in_range] in *; lia.
Qed.

Lemma config_accepts : forall s k z, in_range s k z = true -> effective s k z = Running z.
Proof.
  intros s k z Hr. unfold effective, load.
  assert ((0 <=? z) && (z <=? type_max s k) = true) as ->
    by (destruct s, k; cbn [type_max in_range] in *; lia).
  assert (valid k z = true) as -> by (destruct k; cbn [valid in_range] in *; lia).
  reflexivity.
Qed.

Lemma config_sources_agree : forall k z,
  (k = CStatus -> z <= 65535) -> (k = CWorkers -> z <= 9223372036854775807) ->
  effective File k z = effective Env k z.
Proof.
  intros k z Hs Hw. unfold effective, load.
  destruct k; cbn [type_max]; try reflexivity.
  - specialize (Hs eq_refl).
    destruct (0 <=? z) eqn:E0; cbn [andb]; [|reflexivity].
    assert ((z <=? 9223372036854775807) = true) as -> by lia.
    assert ((z <=? 65535) = true) as -> by lia. reflexivity.
  - specialize (Hw eq_refl).
    destruct (0 <=? z) eqn:E0; cbn [andb]; [|reflexivity].
    assert ((z <=? 9223372036854775807) = true) as -> by lia.
    assert ((z <=? 18446744073709551615) = true) as -> by lia. reflexivity.
Qed.

(* ---- the whole-configuration validator ---- *)
Lemma valid_config_iff : forall c, is_valid_config c = VOk true <-> config_ok c = true.
Proof.
  intro c. unfold is_valid_config, config_ok, SEED_LEN.
  destruct c as [port ie sl kms b f w cs pd ap]; cbn [s_port s_interface_empty s_seed_len s_kms s_batch
    s_fault s_workers s_client_stats s_pdir s_addr_parses].
  destruct (port =? 0) eqn:E1; destruct ie; destruct (sl =? 0) eqn:E3; destruct kms;
    destruct (sl =? 32) eqn:E4; destruct (sl <=? 32) eqn:E5;
    destruct ((b <? 1) || (64 <? b)) eqn:E6; destruct (50 <? f) eqn:E7; destruct (w =? 0) eqn:E8;
    destruct cs; try destruct pd as [[ex isd ro]|]; cbn [d_exists d_is_dir d_readonly];
    try destruct ex; try destruct isd; try destruct ro; destruct ap; cbn [negb andb orb];
    split; intro Hx; try discriminate Hx; try reflexivity; try lia.
Qed.

(* a panic happens exactly when per-client statistics are on and the configured directory does
   not exist: start-up is refused then, too (the process dies before serving) *)
Lemma valid_config_panic : forall c,
  is_valid_config c = VPanic <->
  (s_client_stats c = true /\ exists d, s_pdir c = Some d /\ d_exists d = false).
Proof.
  intro c. unfold is_valid_config.
  destruct (s_client_stats c); [|split; [intro Hx; destruct (if s_port c =? 0 then false else true); repeat match goal with |- context [if ?x then _ else _] => destruct x end; discriminate Hx | intros [Hx _]; discriminate Hx]].
  destruct (s_pdir c) as [d|].
  - destruct (d_exists d) eqn:Ee; cbn [negb].
    + split; [intro Hx; repeat match type of Hx with context [if ?x then _ else _] => destruct x end; discriminate Hx|].
      intros [_ [d' [Hd He]]]. injection Hd as <-. rewrite Ee in He. discriminate He.
    + split; [intros _; split; [reflexivity|exists d; split; [reflexivity|exact Ee]]|reflexivity].
  - split; [intro Hx; discriminate Hx|]. intros [_ [d [Hd _]]]. discriminate Hd.
Qed.

(* no later check can restore validity once an earlier one failed: in particular a good
   persistence directory does not excuse an out-of-range value *)
Lemma valid_config_refuses : forall c,
  (s_port c = 0 \/ s_batch c < 1 \/ 64 < s_batch c \/ 50 < s_fault c \/ s_workers c = 0
   \/ s_seed_len c = 0 \/ s_interface_empty c = true) ->
  is_valid_config c <> VOk true.
Proof.
  intros c Hbad Hv. apply valid_config_iff in Hv. unfold config_ok in Hv.
  repeat (apply andb_true_iff in Hv; destruct Hv as [Hv ?]).
  unfold SEED_LEN in *.
  destruct Hbad as [E|[E|[E|[E|[E|[E|E]]]]]]; try lia; try (destruct (s_kms c); lia);
    try (rewrite E in *; discriminate).
Qed.
