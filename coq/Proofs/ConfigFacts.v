Require Import RV.Model.Config.
From Coq Require Import ZArith Bool Lia ZifyBool.
Local Open Scope Z_scope.

Lemma config_faithful : forall s k z v, effective s k z = Running v -> v = z /\ (0 <= z <= type_max s k).
Proof.
  intros s k z v. unfold effective, load.
  destruct ((0 <=? z) && (z <=? type_max s k)) eqn:E; [|discriminate].
  destruct (valid k z); [|discriminate]. intro H. injection H as <-. lia.
Qed.

Lemma config_running_in_range : forall s k z v,
  effective s k z = Running v -> v = z /\ in_range s k z = true.
Proof.
  intros s k z v H. pose proof (config_faithful _ _ _ _ H) as [-> Hr]. split; [reflexivity|].
  unfold effective, load in H.
  destruct ((0 <=? z) && (z <=? type_max s k)) eqn:E; [|discriminate].
  destruct (valid k z) eqn:V; [|discriminate].
  destruct s, k; cbn [type_max valid in_range] in *; lia.
Qed.

Lemma config_refuses : forall s k z,
  (k = CPort \/ k = CBatch \/ k = CFault \/ k = CWorkers) ->
  in_range s k z = false -> effective s k z = Refused.
Proof.
  intros s k z Hk Hr. unfold effective, load.
  destruct ((0 <=? z) && (z <=? type_max s k)) eqn:E; [|reflexivity].
  destruct (valid k z) eqn:V; [|reflexivity]. exfalso.
  destruct Hk as [-> | [-> | [-> | ->]]]; destruct s; cbn [type_max valid in_range] in *; lia.
Qed.

Lemma config_accepts : forall s k z, in_range s k z = true -> effective s k z = Running z.
Proof.
  intros s k z Hr. unfold effective, load.
  assert ((0 <=? z) && (z <=? type_max s k) = true) as ->
    by (destruct s, k; cbn [type_max in_range] in *; lia).
  assert (valid k z = true) as -> by (destruct k; cbn [valid in_range] in *; lia).
  reflexivity.
Qed.

Lemma config_sources_agree : forall k z,
  (k = CStatus -> z <= 65535) -> effective File k z = effective Env k z.
Proof.
  intros k z Hs. unfold effective, load.
  destruct k; cbn [type_max]; try reflexivity.
  specialize (Hs eq_refl).
  destruct (0 <=? z) eqn:E0; cbn [andb]; [|reflexivity].
  assert ((z <=? 9223372036854775807) = true) as -> by lia.
  assert ((z <=? 65535) = true) as -> by lia. reflexivity.
Qed.
