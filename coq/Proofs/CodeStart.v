(* CodeStart.v — compositions across the translated start-up path: configuration file -> loaded
   configuration -> kms::load_seed -> LongTermKey::new. *)
Require Import RV.Model.Bytes RV.Gen.Tables RV.Model.Tag RV.Model.Message RV.Model.Merkle RV.Model.Keys
        RV.Model.Server RV.Model.Config RV.Model.ConfigLoad RV.Model.GenSupport RV.Model.LoadModel RV.Gen.Code
        RV.Spec.MerkleGoals.
Require Import RV.Proofs.CodeCtor RV.Proofs.CodeLoad.
From Coq Require Import ZArith List.
Import ListNotations.

Theorem gen_identity_from_file :
  forall H, HashLen H -> forall ed_pk cores entries f c seed,
  gen_file_config_new cores (Ok [DHash entries]) f = Ok c ->
  gen_load_seed c = Ok seed ->
  gen_ltk_new ed_pk H seed = Ok (seed, ltk_srv_value H ed_pk seed)
  /\ match last_written entries t_seed with
     | Some v => exists s, v = YStr s /\ hex_decode s = Some seed
     | None => seed = []
     end.
Proof.
  intros H HL ed_pk cores entries f c seed Hl Hs.
  destruct (gen_identity_from_config H HL ed_pk c seed Hs) as (-> & _ & Hn).
  split; [exact Hn|]. exact (gen_file_seed cores entries f c Hl).
Qed.

(* ------------------------------------------------------------------ the key set-up of Server::new *)
Require Import RV.Proofs.CodeLib.

Definition ok_any {E A} (x : outcome E A) : option A := match x with Ok a => Some a | _ => None end.

(* the three statements of Server::new that load the seed, make the long-term key and certify the two responders:
   with a plaintext seed they build exactly the model's server (Model/Server.v server_new) — the IETF responder
   first, then the classic one, both under the one long-term key made from the configured seed, each with its own
   online key — or fail where the model fails; with any other kms_protection this build refuses *)
Theorem gen_server_new_keys_model : forall H, HashLen H -> forall ed_pk ed_sign oi oc c cfg,
  lc_kms c = KPlaintext ->
  ok_any (gen_server_new_keys oi oc H ed_pk ed_sign c)
  = match ok_opt (server_new H ed_pk ed_sign cfg (lc_seed c) oi oc) with
    | Some s => Some ((lc_seed c, s_srv_value s), s_ietf s, s_classic s)
    | None => None
    end.
Proof.
  intros H HL ed_pk ed_sign oi oc c cfg Hk. unfold gen_server_new_keys, server_new.
  rewrite gen_load_seed_model, Hk. cbn [unwrap_c obind].
  rewrite (gen_ltk_new_model H HL). cbn [obind fst].
  pose proof (gen_responder_new_model ed_pk ed_sign RfcDraft13 (lc_seed c) oi) as Hi.
  pose proof (gen_responder_new_model ed_pk ed_sign Google (lc_seed c) oc) as Hc.
  destruct (gen_responder_new oi ed_pk ed_sign RfcDraft13 tt (lc_seed c)) as [ri| |];
    destruct (responder_new ed_pk ed_sign RfcDraft13 (lc_seed c) oi) as [ri'| |]; cbn [ok_opt] in Hi; try discriminate Hi;
    cbn [obind ok_any ok_opt]; try reflexivity.
  injection Hi as <-.
  destruct (gen_responder_new oc ed_pk ed_sign Google tt (lc_seed c)) as [rc| |];
    destruct (responder_new ed_pk ed_sign Google (lc_seed c) oc) as [rc'| |]; cbn [ok_opt] in Hc; try discriminate Hc;
    cbn [obind ok_any ok_opt]; try reflexivity.
  injection Hc as <-. reflexivity.
Qed.

Theorem gen_server_new_keys_refuses_kms : forall H ed_pk ed_sign oi oc c,
  lc_kms c <> KPlaintext -> gen_server_new_keys oi oc H ed_pk ed_sign c = Panic site_gen.
Proof.
  intros H ed_pk ed_sign oi oc c Hk. unfold gen_server_new_keys. rewrite gen_load_seed_model.
  destruct (lc_kms c); [congruence| |]; reflexivity.
Qed.
