(* CodeStart.v — compositions across the translated start-up path: configuration file -> loaded
   configuration -> kms::load_seed -> LongTermKey::new. *)
Require Import RV.Model.Bytes RV.Gen.Tables RV.Model.Tag RV.Model.Message RV.Model.Merkle RV.Model.Keys
        RV.Model.Server RV.Model.Config RV.Model.ConfigLoad RV.Model.GenSupport RV.Model.LoadModel RV.Gen.Code
        RV.Spec.MerkleGoals.
Require Import RV.Proofs.CodeCtor RV.Proofs.CodeLoad.
From Coq Require Import ZArith List.
Import ListNotations.

Theorem gen_identity_from_file :
  forall H, HashLen H -> forall ed_pk cores entries f c seed,
  gen_file_config_new cores (Ok [DHash entries]) f = Ok c ->
  gen_load_seed c = Ok seed ->
  gen_ltk_new ed_pk H seed = Ok (seed, ltk_srv_value H ed_pk seed)
  /\ match last_written entries t_seed with
     | Some v => exists s, v = YStr s /\ hex_decode s = Some seed
     | None => seed = []
     end.
Proof.
  intros H HL ed_pk cores entries f c seed Hl Hs.
  destruct (gen_identity_from_config H HL ed_pk c seed Hs) as (-> & _ & Hn).
  split; [exact Hn|]. exact (gen_file_seed cores entries f c Hl).
Qed.
