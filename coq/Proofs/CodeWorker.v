(* CodeWorker.v — polling_loop of src/bin/roughenough-server.rs as translated on this run: the worker calls
   process_events, tests KEEP_RUNNING after EVERY call and only there, and returns at the first test that
   finds the flag cleared. *)
Require Import RV.Model.Bytes RV.Gen.Tables RV.Model.Tag RV.Model.Message RV.Model.GenSupport RV.Gen.Code.
From Coq Require Import NArith List Lia.
Import ListNotations.

Section Worker.
  Variables (WS WO : Type) (step : WS -> nat -> res (WS * WO)) (flag : nat -> bool).

  (* the loop, functionally: call number i, then the test of the flag after it *)
  Fixpoint worker (fuel : nat) (s : WS) (i : nat) (outs : list WO) : res (nat * list WO) :=
    match fuel with
    | O => Panic site_fuel
    | S f => obind (step s i) (fun '(s', o) =>
             if flag i then worker f s' (S i) (outs ++ [o]) else Ok (S i, outs ++ [o]))
    end.

  Theorem gen_polling_loop_model : forall fuel init i outs,
    gen_polling_loop WS WO init step flag fuel tt tt tt i outs = worker fuel init i outs.
  Proof.
    intros fuel init i outs. unfold gen_polling_loop. cbv zeta.
    revert init i outs. induction fuel as [|f IH]; intros s i outs; cbn [loop_fuel worker]; [reflexivity|].
    destruct (step s i) as [[s' o]| |]; cbn [obind]; try reflexivity.
    cbn [pred]. destruct (flag i); cbn [negb obind]; [|reflexivity].
    apply IH.
  Qed.

  (* the flag is tested after every call: if it is first found cleared after call number n (counting from
     the call number the worker starts with), exactly the calls up to n are made, whatever later calls would do *)
  Theorem worker_stops_at_flag : forall n fuel s i outs,
    (n < fuel)%nat ->
    (forall j, (i <= j < i + n)%nat -> flag j = true) -> flag (i + n) = false ->
    match worker fuel s i outs with
    | Ok (calls, outs') => calls = S (i + n) /\ length outs' = (length outs + S n)%nat
    | Err _ => True
    | Panic _ => exists j s0, (i <= j <= i + n)%nat /\ (forall r, step s0 j <> Ok r)
    end.
  Proof.
    induction n as [|n IH]; intros fuel s i outs Hf Hon Hoff;
      (destruct fuel as [|f]; [lia|]); cbn [worker].
    - destruct (step s i) as [[s' o]| |] eqn:E; cbn [obind]; try exact I.
      + rewrite Nat.add_0_r in Hoff. rewrite Hoff. split; [lia|]. rewrite app_length. cbn [length]. lia.
      + exists i, s. split; [lia|]. intros r Hr. rewrite Hr in E. discriminate.
    - destruct (step s i) as [[s' o]| |] eqn:E; cbn [obind]; try exact I.
      + rewrite (Hon i) by lia.
        specialize (IH f s' (S i) (outs ++ [o])).
        assert (H1 : (n < f)%nat) by lia.
        assert (H2 : forall j, (S i <= j < S i + n)%nat -> flag j = true) by (intros j Hj; apply Hon; lia).
        assert (H3 : flag (S i + n) = false) by (replace (S i + n)%nat with (i + S n)%nat by lia; exact Hoff).
        specialize (IH H1 H2 H3).
        destruct (worker f s' (S i) (outs ++ [o])) as [[calls outs']| |]; try exact I.
        * destruct IH as [Hc Hl]. split; [lia|]. rewrite app_length in Hl. cbn [length] in Hl. lia.
        * destruct IH as (j & s0 & Hj & Hs). exists j, s0. split; [lia|exact Hs].
      + exists i, s. split; [lia|]. intros r Hr. rewrite Hr in E. discriminate.
  Qed.
End Worker.

(* ------------------------------------------------------------------ the worker-loop model of C19 is an instance *)
Require Import RV.Model.Merkle RV.Model.Keys RV.Model.Server RV.Model.Process.

Definition res_map {A B} (f : A -> B) (x : res A) : res B :=
  match x with Ok a => Ok (f a) | Err e => Err e | Panic p => Panic p end.

Theorem model_polling_loop_is_worker : forall H ed_sign iters s i flag_at traffic batches clk acc,
  ok_opt (res_map (fun r => acc ++ r) (polling_loop H ed_sign iters s i flag_at traffic batches clk))
  = ok_opt (res_map snd
      (worker server (list serve_out)
         (fun s j => drain_live H ed_sign (batches j) s (fst (traffic j)) (snd (traffic j)) clk 0 [])
         (fun j => negb (flag_at <=? j)%nat) iters s i acc)).
Proof.
  intros H ed_sign iters. induction iters as [|it IH]; intros s i flag_at traffic batches clk acc;
    cbn [polling_loop worker res_map ok_opt]; [reflexivity|].
  destruct (traffic i) as [q arr] eqn:Et. cbn [fst snd].
  destruct (drain_live H ed_sign (batches i) s q arr clk 0 []) as [[s' outs]| |]; cbn [obind res_map ok_opt]; try reflexivity.
  destruct (flag_at <=? i)%nat; cbn [negb res_map snd ok_opt]; [reflexivity|].
  rewrite <- IH.
  destruct (polling_loop H ed_sign it s' (S i) flag_at traffic batches clk) as [r| |]; cbn [obind res_map ok_opt]; try reflexivity.
  rewrite <- app_assoc. reflexivity.
Qed.
