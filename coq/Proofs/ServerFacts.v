(* ServerFacts.v — proofs of the server-group goals G0, G2, G3, G4 of Spec/ServerGoals.v about
   Model/Server.v, relative to the classifier goal G1 (goal_classify). *)
Require Import RV.Model.Bytes RV.Gen.Tables RV.Model.Tag RV.Model.Message RV.Model.Merkle
        RV.Model.Request RV.Model.Keys RV.Model.Server
        RV.Spec.RefCodec RV.Spec.RefMerkle RV.Spec.MerkleGoals RV.Spec.RefVerify RV.Spec.ServerGoals.
Require Import RV.Proofs.TagFacts RV.Proofs.BytesFacts RV.Proofs.EncFacts RV.Proofs.CodecEncode
        RV.Proofs.MerkleModel.
From Coq Require Import ZArith Lia ZifyN ZifyBool ZifyNat.
Ltac Zify.zify_post_hook ::= Z.div_mod_to_equations.
Local Open Scope N_scope.

(* ------------------------------------------------------------------ *)
(* encode is total *)

Lemma sf_encode_total : forall m, exists bs, encode m = Ok bs /\ length bs = encoded_size m.
Proof.
  intros m. unfold encode.
  destruct m as [|[t0 v0] r].
  - eexists. split; reflexivity.
  - assert (Hoffs : (if (1 <? length ((t0, v0) :: r))%nat
                     then Ok (enc_offsets (length v0) r) else Ok [])
                    = (Ok (enc_offsets (length v0) r) : res bytes)).
    { destruct r; reflexivity. }
    rewrite Hoffs. cbn [obind].
    match goal with |- context [(length ?o =? _)%nat] => set (out := o) end.
    assert (Hlen : length out = encoded_size ((t0, v0) :: r)).
    { unfold out. rewrite !app_length, enc_u32le_length, enc_offsets_length,
        enc_tags_length, enc_values_length.
      unfold encoded_size. cbn [length]. destruct r; cbn [length Nat.ltb Nat.leb]; lia. }
    rewrite Hlen, Nat.eqb_refl. exists out. split; [reflexivity|exact Hlen].
Qed.

Lemma sf_encode_framed_total : forall m, exists bs, encode_framed m = Ok bs.
Proof.
  intros m. unfold encode_framed. destruct (sf_encode_total m) as [bs [Hbs _]].
  rewrite Hbs. eexists. reflexivity.
Qed.

Lemma sf_encode_small : forall m, N.of_nat (encoded_size m) < 4000 -> encode m = Ok (canon m).
Proof. intros m Hm. apply encode_canon. unfold two32. lia. Qed.

Lemma sf_encode_framed_small : forall m, N.of_nat (encoded_size m) < 4000 ->
  encode_framed m = Ok (REQUEST_FRAMING_BYTES ++ u32le (lenN (canon m)) ++ canon m).
Proof.
  intros m Hm. unfold encode_framed. rewrite sf_encode_small by exact Hm. cbn [obind].
  rewrite enc_as_u32_small; [reflexivity|].
  unfold lenN, two32. rewrite canon_length. lia.
Qed.

(* ------------------------------------------------------------------ *)
(* the concrete messages built by add_field(..).unwrap() chains *)

Lemma sf_build_dele : forall a b c,
  build_unwrap [] [(PUBK, a); (MINT, b); (MAXT, c)] = Ok [(PUBK, a); (MINT, b); (MAXT, c)].
Proof. reflexivity. Qed.

Lemma sf_build_cert : forall a b,
  build_unwrap [] [(SIG, a); (DELE, b)] = Ok [(SIG, a); (DELE, b)].
Proof. reflexivity. Qed.

Lemma sf_build_srep_classic : forall a b c,
  build_unwrap [] [(RADI, a); (MIDP, b); (ROOT, c)] = Ok [(RADI, a); (MIDP, b); (ROOT, c)].
Proof. reflexivity. Qed.

Lemma sf_build_srep_ietf : forall a b c d e,
  build_unwrap [] [(VER, a); (RADI, b); (MIDP, c); (VERS, d); (ROOT, e)]
  = Ok [(VER, a); (RADI, b); (MIDP, c); (VERS, d); (ROOT, e)].
Proof. reflexivity. Qed.

Lemma sf_build_signed_srep : forall a b,
  build_unwrap [] [(SIG, a); (SREP, b)] = Ok [(SIG, a); (SREP, b)].
Proof. reflexivity. Qed.

Lemma sf_build_response : forall a b c d e f,
  build_unwrap [] [(SIG, a); (NONC, b); (PATH, c); (SREP, d); (CERT, e); (INDX, f)]
  = Ok [(SIG, a); (NONC, b); (PATH, c); (SREP, d); (CERT, e); (INDX, f)].
Proof. reflexivity. Qed.

Lemma sf_build_corrupt : forall a c d e f,
  build_unwrap [] [(SIG, a); (PATH, c); (SREP, d); (CERT, e); (INDX, f)]
  = Ok [(SIG, a); (PATH, c); (SREP, d); (CERT, e); (INDX, f)].
Proof. reflexivity. Qed.

Lemma sf_wrle_length : forall k n, length (wrle k n) = k.
Proof. induction k as [|k IH]; intro n; [reflexivity|]. cbn [wrle length]. rewrite IH. reflexivity. Qed.

Lemma sf_u64le_length : forall n, length (u64le n) = 8%nat.
Proof. intro n. apply sf_wrle_length. Qed.

Lemma sf_repeat_byte_length : forall b n, length (repeat_byte b n) = n.
Proof. induction n as [|n IH]; [reflexivity|]. cbn [repeat_byte length]. rewrite IH. reflexivity. Qed.

(* ------------------------------------------------------------------ *)
Section Facts.
  Variable H : bytes -> bytes.
  Variable ed_pk : bytes -> bytes.
  Variable ed_sign : bytes -> bytes -> bytes.
  Hypothesis HPk : PkLen ed_pk.
  Hypothesis HSig : SigLen ed_sign.

  Lemma sf_dele_bytes_length : forall ok, length (dele_bytes_of ed_pk ok) = 72%nat.
  Proof.
    intro ok. unfold dele_bytes_of. rewrite canon_length. unfold encoded_size.
    cbn [length sum_lengths Nat.ltb Nat.leb]. rewrite HPk, !sf_repeat_byte_length. reflexivity.
  Qed.

  Lemma sf_cert_bytes_length : forall v lt ok, length (cert_bytes_of ed_pk ed_sign v lt ok) = 152%nat.
  Proof.
    intros v lt ok. unfold cert_bytes_of. rewrite canon_length. unfold encoded_size.
    cbn [length sum_lengths Nat.ltb Nat.leb]. rewrite HSig, sf_dele_bytes_length. reflexivity.
  Qed.

  Lemma sf_make_cert : forall v lt ok,
    make_cert ed_pk ed_sign v lt ok =
      Ok [(SIG, ed_sign lt (dele_prefix v ++ dele_bytes_of ed_pk ok)); (DELE, dele_bytes_of ed_pk ok)].
  Proof.
    intros v lt ok. unfold make_cert, make_dele. rewrite sf_build_dele. cbn [obind].
    rewrite sf_encode_small.
    - cbn [unwrap obind]. rewrite sf_build_cert. reflexivity.
    - rewrite <- canon_length. fold (dele_bytes_of ed_pk ok). rewrite sf_dele_bytes_length. lia.
  Qed.

  Lemma sf_responder_new : forall v lt ok,
    responder_new ed_pk ed_sign v lt ok =
      Ok (mkresp v ok (cert_bytes_of ed_pk ed_sign v lt ok) [] (tree_new v)).
  Proof.
    intros v lt ok. unfold responder_new. rewrite sf_make_cert. cbn [obind].
    rewrite sf_encode_small.
    - reflexivity.
    - rewrite <- canon_length. fold (cert_bytes_of ed_pk ed_sign v lt ok).
      rewrite sf_cert_bytes_length. lia.
  Qed.

  Lemma sf_server_new : forall cfg lt oi oc, exists s,
    server_new H ed_pk ed_sign cfg lt oi oc = Ok s /\ SInv H ed_pk ed_sign cfg lt oi oc s.
  Proof.
    intros cfg lt oi oc. unfold server_new. rewrite !sf_responder_new. cbn [obind].
    eexists. split; [reflexivity|].
    unfold SInv, RInv.
    cbn [s_cfg s_srv_value s_ietf s_classic r_version r_online_seed r_cert_bytes r_merkle
         tree_new tver levels].
    repeat split; discriminate.
  Qed.
End Facts.

Lemma server_new_ok : forall H ed_pk ed_sign, goal_server_new H ed_pk ed_sign.
Proof. intros H ed_pk ed_sign HPk HSig. apply sf_server_new; assumption. Qed.
Print Assumptions server_new_ok.

(* ------------------------------------------------------------------ *)
(* collect_requests *)

Definition sf_rq (q : req) : bytes * addr := (req_nonce q, req_src q).

Lemma sf_accepted_cons : forall srv v sd ds,
  accepted srv v (sd :: ds) =
    (match wellformed srv (snd sd) with
     | Some (n, v') => if version_beq v v' then [(fst sd, snd sd, n)] else []
     | None => []
     end) ++ accepted srv v ds.
Proof. reflexivity. Qed.

Lemma sf_accepted_length : forall srv v ds, (length (accepted srv v ds) <= length ds)%nat.
Proof.
  intros srv v ds. induction ds as [|sd ds IH]; [apply le_n|].
  rewrite sf_accepted_cons, app_length. cbn [length].
  destruct (wellformed srv (snd sd)) as [[n v']|]; [destruct (version_beq v v')|]; cbn [length Nat.add];
    [apply le_n_S, IH|apply le_S, IH|apply le_S, IH].
Qed.

Section Collect.
  Variable H : bytes -> bytes.
  Hypothesis Hcls : goal_classify.

  Lemma sf_collect : forall ds srv cfg i vi si ci qi li ai vc sc cc qc lc ac,
    exists lg,
      collect H srv cfg (mkresp vi si ci qi (mktree (li :: ai) RfcDraft13))
                        (mkresp vc sc cc qc (mktree (lc :: ac) Google)) ds i =
      Ok (mkresp vi si ci (qi ++ map sf_rq (accepted srv RfcDraft13 ds))
            (mktree ((li ++ map (s_leaf (hashv H RfcDraft13))
                              (map (leaf_of RfcDraft13) (accepted srv RfcDraft13 ds))) :: ai) RfcDraft13),
          mkresp vc sc cc (qc ++ map sf_rq (accepted srv Google ds))
            (mktree ((lc ++ map (s_leaf (hashv H Google))
                              (map (leaf_of Google) (accepted srv Google ds))) :: ac) Google),
          spec_request_stats srv ds, lg).
  Proof.
    induction ds as [|[src d] ds IH]; intros srv cfg i vi si ci qi li ai vc sc cc qc lc ac.
    - exists []. cbn [collect accepted flat_map map spec_request_stats]. rewrite !app_nil_r. reflexivity.
    - destruct (Hcls srv d) as [Hok Hnp].
      cbn [collect]. rewrite !sf_accepted_cons. cbn [fst snd spec_request_stats map].
      destruct (classify srv d) as [[n v]|e|s]; cbn [ok_opt is_panic] in Hok, Hnp;
        [|clear Hnp|discriminate Hnp]; rewrite <- Hok.
      + destruct v.
        * (* classic *)
          cbn [version_beq app].
          unfold responder_add, push_leaf. cbn [r_merkle levels tver obind lift r_version r_online_seed r_cert_bytes r_requests].
          destruct (IH srv cfg (S i) vi si ci qi li ai vc sc cc (qc ++ [(n, src)])
                       (lc ++ [hash_leaf H Google n]) ac) as [lg Hlg].
          rewrite Hlg. cbn [obind]. exists lg.
          cbn [map app leaf_of req_nonce snd sf_rq req_src fst].
          rewrite <- !app_assoc. reflexivity.
        * (* IETF *)
          cbn [version_beq app].
          unfold responder_add, push_leaf. cbn [r_merkle levels tver obind lift r_version r_online_seed r_cert_bytes r_requests].
          destruct (IH srv cfg (S i) vi si ci (qi ++ [(n, src)])
                       (li ++ [hash_leaf H RfcDraft13 d]) ai vc sc cc qc lc ac) as [lg Hlg].
          rewrite Hlg. cbn [obind]. exists lg.
          cbn [map app leaf_of req_dgram req_nonce snd sf_rq req_src fst].
          rewrite <- !app_assoc. reflexivity.
      + cbn [app].
        destruct (IH srv cfg (S i) vi si ci qi li ai vc sc cc qc lc ac) as [lg Hlg].
        rewrite Hlg. cbn [obind]. eexists. reflexivity.
  Qed.
End Collect.

(* ------------------------------------------------------------------ *)
(* the Merkle steps of send_responses on the tree that collect built *)

Section MerkleSteps.
  Variable H : bytes -> bytes.
  Variable v : version.
  Hypothesis HL : HashLen H.
  Local Notation h := (hashv H v).
  Local Notation w := (node_len v).

  Lemma sf_w_le : (w <= 64)%nat.
  Proof. destruct v; cbn; lia. Qed.

  Lemma sf_leaves_wide : forall ls, mk_wide v (map (s_leaf h) ls).
  Proof.
    intros ls. unfold mk_wide. apply Forall_forall. intros x Hx.
    apply in_map_iff in Hx. destruct Hx as [y [<- _]]. apply mk_hashv_len, HL.
  Qed.

  Lemma sf_root_of_len : forall g L, mk_wide v L -> (length (root_of h w g L) <= w)%nat.
  Proof.
    induction g as [|g IH]; intros L HW; [cbn; lia|].
    destruct L as [|a [|b r]].
    - cbn. lia.
    - cbn [root_of]. inversion HW; subst. lia.
    - cbn [root_of]. apply IH. apply mk_pairup_wide, HL.
  Qed.

  Lemma sf_spec_root_len : forall ls, (length (spec_root H v ls) <= 64)%nat.
  Proof.
    intros ls. unfold spec_root, s_root.
    pose proof (sf_root_of_len (length ls) _ (sf_leaves_wide ls)). pose proof sf_w_le. lia.
  Qed.

  Lemma sf_sibling_len : forall L i, mk_wide v L -> length (sibling w L i) = w.
  Proof.
    intros L i HW. unfold sibling.
    set (j := if Nat.even i then S i else pred i).
    destruct (Nat.lt_ge_cases j (length L)) as [Hlt|Hge].
    - unfold mk_wide in HW. rewrite Forall_forall in HW. apply HW. apply nth_In. exact Hlt.
    - rewrite nth_overflow by exact Hge. unfold s_zero. apply sf_repeat_byte_length.
  Qed.

  Lemma sf_path_len : forall g L i k, mk_wide v L -> (length L <= 2 ^ k)%nat ->
    (length (concat (path_of h w g L i)) <= k * w)%nat.
  Proof.
    induction g as [|g IH]; intros L i k HW Hk; [cbn; lia|].
    destruct L as [|a [|b r]]; [cbn; lia|cbn; lia|].
    remember (a :: b :: r) as L eqn:EL.
    assert (Hl2 : (2 <= length L)%nat) by (subst L; cbn; lia).
    assert (Hpa : path_of h w (S g) L i = sibling w L i :: path_of h w g (pairup h w L) (i / 2))
      by (subst L; reflexivity).
    rewrite Hpa. clear Hpa. cbn [concat]. rewrite app_length, (sf_sibling_len L i HW).
    destruct k as [|k]; [cbn in Hk; lia|].
    rewrite Nat.pow_succ_r' in Hk.
    specialize (IH (pairup h w L) (i / 2)%nat k (mk_pairup_wide H v HL L)).
    rewrite mk_pairup_length in IH.
    assert (Hle : ((length L + 1) / 2 <= 2 ^ k)%nat).
    { generalize dependent (2 ^ k)%nat. intros P Hk IH. lia. }
    specialize (IH Hle). lia.
  Qed.

  Lemma sf_pow32 : forall n, N.of_nat n <= 4294967296 -> (n <= 2 ^ 32)%nat.
  Proof.
    intros n Hn. pose proof mk_two32 as H32.
    generalize dependent (2 ^ 32)%nat. intros P H32. lia.
  Qed.

  Lemma sf_nth_spec_paths : forall ls i, (i < length ls)%nat ->
    nth i (spec_paths H v ls) [] = concat (s_path h w ls i).
  Proof.
    intros ls i Hi. unfold spec_paths.
    rewrite (nth_indep _ [] (concat (s_path h w ls 0))) by (rewrite map_length, seq_length; exact Hi).
    rewrite (map_nth (fun i => concat (s_path h w ls i))). rewrite seq_nth by exact Hi. reflexivity.
  Qed.

  Lemma sf_spec_path_len : forall ls i, N.of_nat (length ls) <= 4294967296 -> (i < length ls)%nat ->
    N.of_nat (length (nth i (spec_paths H v ls) [])) <= 2048.
  Proof.
    intros ls i Hn Hi. rewrite sf_nth_spec_paths by exact Hi. unfold s_path.
    pose proof (sf_path_len (length ls) (map (s_leaf h) ls) i 32 (sf_leaves_wide ls)) as Hp.
    rewrite map_length in Hp. specialize (Hp (sf_pow32 _ Hn)). pose proof sf_w_le. lia.
  Qed.

  (* compute_root, then get_paths for every queued position *)
  Lemma sf_root_and_paths : forall ls above, ls <> [] -> N.of_nat (length ls) <= 4294967296 ->
    mk_empties above ->
    exists t', compute_root H (mktree (map (s_leaf h) ls :: above) v) = Ok (t', spec_root H v ls)
      /\ tver t' = v /\ levels t' <> []
      /\ forall i, (i < length ls)%nat -> get_paths t' i = Ok (nth i (spec_paths H v ls) []).
  Proof.
    intros ls above Hls Hlen Hab.
    set (L0 := map (s_leaf h) ls).
    assert (HL0 : length L0 = length ls) by apply map_length.
    assert (HL0ne : L0 <> []).
    { destruct ls; [contradiction|discriminate]. }
    destruct (mk_root_loop H v HL (S (length L0)) (length ls) [] L0 above Hab (sf_leaves_wide ls) HL0ne)
      as [rest Hrest]; [lia|lia|].
    exists (mktree (mk_plevels H v (length ls) L0 ++ [] :: rest) v).
    split; [|split; [reflexivity|split]].
    - unfold compute_root. cbn [levels tver].
      destruct L0 as [|x xs] eqn:EL0; [contradiction|]. rewrite <- EL0 in *.
      rewrite Hrest. reflexivity.
    - cbn [levels]. intro Hnil. apply app_eq_nil in Hnil. destruct Hnil as [_ Hnil]. discriminate Hnil.
    - intros i Hi. unfold get_paths. cbn [levels].
      rewrite mk_paths_loop.
      + rewrite sf_nth_spec_paths by exact Hi. reflexivity.
      + lia.
      + pose proof (mk_plevels_depth H v (length ls) L0 32) as Hd.
        rewrite HL0 in Hd. specialize (Hd (sf_pow32 _ Hlen)). lia.
  Qed.
End MerkleSteps.

(* ------------------------------------------------------------------ *)
(* grease, response encoding *)

Lemma sf_make_response : forall a b cert path idx nonce,
  make_response [(SIG, a); (SREP, b)] cert path idx nonce =
    Ok [(SIG, a); (NONC, nonce); (PATH, path); (SREP, b); (CERT, cert); (INDX, u32le (as_u32 idx))].
Proof. reflexivity. Qed.

Lemma sf_shuffle_total : forall (m : msg) perm, Forall (fun i => (i < length m)%nat) perm ->
  exists m', randomly_order_tags perm m = Ok m'.
Proof.
  intros m perm HF. unfold randomly_order_tags.
  induction HF as [|i perm Hi HF IH]; [eexists; reflexivity|].
  destruct IH as [m' Hm'].
  destruct (nth_error m i) as [tv|] eqn:E.
  - rewrite Hm'. eexists. reflexivity.
  - apply nth_error_None in E. lia.
Qed.

Lemma sf_corrupt_total : forall rnd a b c d e f,
  exists m', corrupt_response_signature rnd
               [(SIG, a); (NONC, b); (PATH, c); (SREP, d); (CERT, e); (INDX, f)] = Ok m'.
Proof. intros. eexists. reflexivity. Qed.

Definition sf_six (m : msg) : Prop :=
  exists a b c d e f, m = [(SIG, a); (NONC, b); (PATH, c); (SREP, d); (CERT, e); (INDX, f)].

(* the PRNG outcomes are only looked at when fault injection is on *)
Definition sf_coins_ok (fault : N) (cs : list coin) : Prop := fault = 0 \/ Forall coin_ok cs.

Lemma sf_grease_total : forall fault c m, (fault = 0 \/ coin_ok c) -> sf_six m ->
  exists m', grease fault c m = Ok m' /\ (fault = 0 -> m' = m).
Proof.
  intros fault c m Hc [a [b [c' [d [e [f Hm]]]]]]. unfold grease.
  destruct (N.eqb_spec fault 0) as [E|E].
  - exists m. split; [reflexivity|]. intros _. reflexivity.
  - destruct Hc as [Hc|Hc]; [contradiction|].
    destruct c as [|perm|rnd].
    + exists m. split; [reflexivity|]. intro. contradiction.
    + destruct (sf_shuffle_total m perm) as [m' Hm'].
      { rewrite Hm. exact Hc. }
      exists m'. split; [exact Hm'|]. intro. contradiction.
    + destruct (sf_corrupt_total rnd a b c' d e f) as [m' Hm']. rewrite Hm.
      exists m'. split; [exact Hm'|]. intro. contradiction.
Qed.

Lemma sf_enc_total : forall v m, exists bs,
  (match v with Google => encode m | RfcDraft13 => encode_framed m end) = Ok bs
  /\ (N.of_nat (encoded_size m) < 4000 -> bs = frame_for v (canon m)).
Proof.
  intros v m. destruct v.
  - destruct (sf_encode_total m) as [bs [Hbs _]]. exists bs. split; [exact Hbs|].
    intro Hsz. rewrite sf_encode_small in Hbs by exact Hsz. inversion Hbs. reflexivity.
  - destruct (sf_encode_framed_total m) as [bs Hbs]. exists bs. split; [exact Hbs|].
    intro Hsz. rewrite sf_encode_framed_small in Hbs by exact Hsz. inversion Hbs. reflexivity.
Qed.

Lemma sf_slice_nonce : forall (nonce : bytes), (4 <= length nonce)%nat ->
  exists n4, @slice error site_log_nonce nonce 0 4 = Ok n4.
Proof.
  intros nonce Hn. unfold slice.
  replace (length nonce <? 4)%nat with false by (symmetry; apply Nat.ltb_ge; exact Hn).
  eexists. reflexivity.
Qed.

Lemma sf_srep_value : forall v now root, (length root <= 64)%nat ->
  srep_value v now root = Ok (srep_bytes_of v now root).
Proof.
  intros v now root Hr. unfold srep_value, srep_bytes_of. destruct v.
  - rewrite sf_build_srep_classic. cbn [obind]. rewrite sf_encode_small; [reflexivity|].
    unfold encoded_size. cbn [length sum_lengths Nat.ltb Nat.leb]. rewrite sf_u64le_length, enc_u32le_length. lia.
  - rewrite sf_build_srep_ietf. cbn [obind]. rewrite sf_encode_small; [reflexivity|].
    unfold encoded_size. cbn [length sum_lengths Nat.ltb Nat.leb]. rewrite sf_u64le_length, enc_u32le_length.
    cbn [ver_wire supported_versions_wire length]. lia.
Qed.

Lemma sf_srep_bytes_len : forall v now root, (length root <= 64)%nat ->
  (length (srep_bytes_of v now root) <= 200)%nat.
Proof.
  intros v now root Hr. unfold srep_bytes_of. destruct v; rewrite canon_length; unfold encoded_size;
    cbn [length sum_lengths Nat.ltb Nat.leb]; rewrite sf_u64le_length, enc_u32le_length;
    cbn [ver_wire supported_versions_wire length]; lia.
Qed.

Lemma sf_make_srep : forall ed_sign v ok now root, (length root <= 64)%nat ->
  make_srep ed_sign v ok now root =
    Ok [(SIG, ed_sign ok (srep_prefix v ++ srep_bytes_of v now root)); (SREP, srep_bytes_of v now root)].
Proof.
  intros ed_sign v ok now root Hr. unfold make_srep. rewrite sf_srep_value by exact Hr.
  cbn [obind]. apply sf_build_signed_srep.
Qed.

Lemma sf_response_stats_cons : forall v e es,
  spec_response_stats v (e :: es) =
    (match v with
     | Google => SClassicResponse (em_dest e) (lenN (em_bytes e))
     | RfcDraft13 => SRfcResponse (em_dest e) (lenN (em_bytes e))
     end) :: spec_response_stats v es.
Proof. reflexivity. Qed.

Lemma sf_response_stats_f_cons : forall sf v e es,
  spec_response_stats_f sf v (e :: es) =
    (if sf (em_dest e) then SFailedSend (em_dest e)
     else match v with
          | Google => SClassicResponse (em_dest e) (lenN (em_bytes e))
          | RfcDraft13 => SRfcResponse (em_dest e) (lenN (em_bytes e))
          end) :: spec_response_stats_f sf v es.
Proof. reflexivity. Qed.

Lemma sf_delivered_cons : forall sf e es,
  delivered sf (e :: es) = (if sf (em_dest e) then [] else [e]) ++ delivered sf es.
Proof. intros sf e es. unfold delivered. cbn [filter]. destruct (sf (em_dest e)); reflexivity. Qed.

Lemma sf_delivered_app : forall sf a b, delivered sf (a ++ b) = delivered sf a ++ delivered sf b.
Proof. intros sf a b. unfold delivered. apply filter_app. Qed.

Lemma sf_delivered_all : forall sf es, (forall a, sf a = false) -> delivered sf es = es.
Proof.
  intros sf es Hs. unfold delivered. induction es as [|e es IH]; [reflexivity|].
  cbn [filter]. rewrite Hs. cbn [negb]. f_equal. exact IH.
Qed.

Lemma sf_response_stats_f_all : forall sf v es, (forall a, sf a = false) ->
  spec_response_stats_f sf v es = spec_response_stats v es.
Proof.
  intros sf v es Hs. unfold spec_response_stats_f, spec_response_stats. apply map_ext.
  intro e. rewrite Hs. reflexivity.
Qed.

(* ------------------------------------------------------------------ *)
(* the per-request loop *)

Section Respond.
  Variable H : bytes -> bytes.
  Variable ed_pk : bytes -> bytes.
  Variable ed_sign : bytes -> bytes -> bytes.
  Hypothesis HL : HashLen H.
  Hypothesis HPk : PkLen ed_pk.
  Hypothesis HSig : SigLen ed_sign.

  Definition sf_nonce_ok (q : req) : Prop := (4 <= length (req_nonce q) <= 64)%nat.

  Definition sf_srep_msg (v : version) (ok : bytes) (now : clock) (root : bytes) : msg :=
    [(SIG, ed_sign ok (srep_prefix v ++ srep_bytes_of v now root)); (SREP, srep_bytes_of v now root)].

  Lemma sf_respond_each : forall cfg v lt ok now rs t,
    (forall i, (i < length rs)%nat ->
       get_paths t i = Ok (nth i (spec_paths H v (map (leaf_of v) rs)) [])) ->
    Forall sf_nonce_ok rs ->
    N.of_nat (length rs) <= 4294967296 ->
    forall rest pre idx coins, idx = length pre -> rs = pre ++ rest -> sf_coins_ok (fault_pct cfg) coins ->
    exists bo,
      respond_each cfg v (sf_srep_msg v ok now (spec_root H v (map (leaf_of v) rs)))
                   (cert_bytes_of ed_pk ed_sign v lt ok) t (map sf_rq rest) idx coins = Ok bo
      /\ sf_coins_ok (fault_pct cfg) (bo_coins bo)
      /\ (fault_pct cfg = 0 ->
          let attempts := map (fun i => mkem (req_src (nth i rs req0))
                                             (reply_bytes H ed_pk ed_sign v lt ok now rs i))
                              (seq idx (length rest)) in
          bo_sent bo = delivered (send_fails cfg) attempts
          /\ bo_stats bo = spec_response_stats_f (send_fails cfg) v attempts
          /\ bo_coins bo = coins).
  Proof.
    intros cfg v lt ok now rs t Hpaths Hnonce Hlen.
    induction rest as [|q rest IH]; intros pre idx coins Hidx Hrs Hcoins.
    - eexists. split; [reflexivity|]. split; [exact Hcoins|]. intros _. repeat split.
    - assert (Hi : (idx < length rs)%nat).
      { rewrite Hrs, app_length. cbn [length]. lia. }
      assert (Hq : nth idx rs req0 = q).
      { rewrite Hrs, Hidx. rewrite app_nth2 by lia. rewrite Nat.sub_diag. reflexivity. }
      assert (Hqn : sf_nonce_ok q).
      { rewrite Forall_forall in Hnonce. apply Hnonce. rewrite Hrs. apply in_or_app. right. left. reflexivity. }
      change (map sf_rq (q :: rest)) with ((req_nonce q, req_src q) :: map sf_rq rest).
      cbn [respond_each]. rewrite (Hpaths idx Hi). cbn [lift obind].
      unfold sf_srep_msg at 1. rewrite sf_make_response. cbn [obind].
      match goal with |- context [grease _ _ ?x] => set (m := x) end.
      assert (Hm : m = reply_msg H ed_pk ed_sign v lt ok now rs idx).
      { unfold m, reply_msg. rewrite Hq. rewrite enc_as_u32_small by (unfold two32; lia). reflexivity. }
      assert (Hsz : N.of_nat (encoded_size m) < 4000).
      { unfold m, encoded_size. cbn [length sum_lengths Nat.ltb Nat.leb].
        rewrite HSig, (sf_cert_bytes_length ed_pk ed_sign HPk HSig), enc_u32le_length.
        pose proof (sf_spec_path_len H v HL (map (leaf_of v) rs) idx) as Hp.
        rewrite map_length in Hp. specialize (Hp Hlen Hi).
        pose proof (sf_srep_bytes_len v now _ (sf_spec_root_len H v HL (map (leaf_of v) rs))) as Hs.
        unfold sf_nonce_ok in Hqn. lia. }
      assert (Hc : exists c coins',
                 (match coins with [] => (NoFault, []) | c :: cs => (c, cs) end) = (c, coins')
                 /\ (fault_pct cfg = 0 \/ coin_ok c) /\ sf_coins_ok (fault_pct cfg) coins').
      { destruct coins as [|c cs].
        - exists NoFault, []. split; [reflexivity|]. split; right; constructor.
        - exists c, cs. split; [reflexivity|].
          destruct Hcoins as [E|HF]; [split; left; exact E|].
          inversion HF; subst. split; right; assumption. }
      destruct Hc as [c [coins' [Ec [Hc Hcs]]]]. rewrite Ec. clear Ec.
      set (coins'' := if fault_pct cfg =? 0 then coins else coins').
      assert (Hc'' : sf_coins_ok (fault_pct cfg) coins'') by (unfold coins''; destruct (fault_pct cfg =? 0); assumption).
      assert (Hc0 : fault_pct cfg = 0 -> coins'' = coins) by (intro E; unfold coins''; rewrite E; reflexivity).
      destruct (sf_grease_total (fault_pct cfg) c m Hc) as [m' [Hm' Hm0]].
      { unfold m, sf_six. repeat eexists. }
      rewrite Hm'. cbn [obind].
      destruct (sf_enc_total v m') as [bs [Hbs Hbs0]]. rewrite Hbs. cbn [unwrap obind].
      destruct (sf_slice_nonce (req_nonce q)) as [n4 Hn4]; [unfold sf_nonce_ok in Hqn; lia|]. rewrite Hn4.
      destruct (IH (pre ++ [q]) (S idx) coins'') as [bo' [Hbo' [Hbc Hbf]]].
      + rewrite app_length. cbn [length]. lia.
      + rewrite <- app_assoc. exact Hrs.
      + exact Hc''.
      + rewrite Hbo'.
        assert (Hrb : fault_pct cfg = 0 -> bs = reply_bytes H ed_pk ed_sign v lt ok now rs idx).
        { intro Hf. specialize (Hm0 Hf). subst m'. rewrite (Hbs0 Hsz). unfold reply_bytes.
          rewrite Hm. reflexivity. }
        destruct (lvl_debug <=? log_level cfg)%nat; cbn [obind].
        all: eexists; split; [reflexivity|]; cbn [bo_sent bo_stats bo_coins].
        all: split; [exact Hbc|]; intro Hf; destruct (Hbf Hf) as [Hs [Hst Hco]].
        all: cbv zeta; cbn [length seq map]; rewrite sf_delivered_cons, sf_response_stats_f_cons.
        all: cbn [em_dest em_bytes]; rewrite Hq, <- (Hrb Hf).
        all: split; [|split]; [ f_equal; exact Hs
                              | destruct (send_fails cfg (req_src q)); f_equal; exact Hst
                              | rewrite Hco; apply Hc0, Hf ].
  Qed.
End Respond.

(* ------------------------------------------------------------------ *)
(* send_responses *)

Section Send.
  Variable H : bytes -> bytes.
  Variable ed_pk : bytes -> bytes.
  Variable ed_sign : bytes -> bytes -> bytes.
  Hypothesis HL : HashLen H.
  Hypothesis HPk : PkLen ed_pk.
  Hypothesis HSig : SigLen ed_sign.

  Lemma sf_spec_replies_nil : forall v lt ok now, spec_replies H ed_pk ed_sign v lt ok now [] = [].
  Proof. reflexivity. Qed.

  Lemma sf_send_responses_cons : forall cfg r now coins, r_requests r <> [] ->
    send_responses H ed_sign cfg r now coins =
      obind (lift (compute_root H (r_merkle r))) (fun '(t', root) =>
      obind (make_srep ed_sign (r_version r) (r_online_seed r) now root) (fun srep =>
      obind (respond_each cfg (r_version r) srep (r_cert_bytes r) t' (r_requests r) 0 coins)
            (fun bo =>
      Ok (mkresp (r_version r) (r_online_seed r) (r_cert_bytes r) (r_requests r) t', bo)))).
  Proof.
    intros cfg r now coins Hne. unfold send_responses.
    destruct (r_requests r); [contradiction|reflexivity].
  Qed.

  Lemma sf_send_responses : forall cfg v lt ok now rs above coins,
    mk_empties above -> Forall sf_nonce_ok rs -> N.of_nat (length rs) <= 4294967296 ->
    sf_coins_ok (fault_pct cfg) coins ->
    exists r' bo,
      send_responses H ed_sign cfg
        (mkresp v ok (cert_bytes_of ed_pk ed_sign v lt ok) (map sf_rq rs)
                (mktree (map (s_leaf (hashv H v)) (map (leaf_of v) rs) :: above) v)) now coins
      = Ok (r', bo)
      /\ RInv ed_pk ed_sign v lt ok r'
      /\ sf_coins_ok (fault_pct cfg) (bo_coins bo)
      /\ (fault_pct cfg = 0 ->
          bo_sent bo = delivered (send_fails cfg) (spec_replies H ed_pk ed_sign v lt ok now rs)
          /\ bo_stats bo = spec_response_stats_f (send_fails cfg) v (spec_replies H ed_pk ed_sign v lt ok now rs)
          /\ bo_coins bo = coins).
  Proof.
    intros cfg v lt ok now rs above coins Hab Hnonce Hlen Hcoins.
    destruct rs as [|q0 rs0] eqn:Ers.
    - unfold send_responses. cbn [map r_requests].
      eexists. eexists. split; [reflexivity|]. split; [|split; [exact Hcoins|]].
      + unfold RInv. cbn [r_version r_online_seed r_cert_bytes r_merkle tver levels].
        repeat split. discriminate.
      + intros _. repeat split.
    - rewrite <- Ers in *.
      assert (Hne : map (leaf_of v) rs <> []) by (rewrite Ers; discriminate).
      assert (Hlen' : N.of_nat (length (map (leaf_of v) rs)) <= 4294967296) by (rewrite map_length; exact Hlen).
      destruct (sf_root_and_paths H v HL (map (leaf_of v) rs) above Hne Hlen' Hab)
        as [t' [Hcr [Htv [Hlv Hgp]]]].
      rewrite map_length in Hgp.
      destruct (sf_respond_each H ed_pk ed_sign HL HPk HSig cfg v lt ok now rs t' Hgp Hnonce Hlen
                  rs [] 0%nat coins eq_refl eq_refl Hcoins) as [bo [Hbo [Hbc Hbf]]].
      rewrite sf_send_responses_cons by (cbn [r_requests]; rewrite Ers; discriminate).
      cbn [r_requests r_merkle r_version r_online_seed r_cert_bytes].
      rewrite Hcr. cbn [lift obind].
      rewrite sf_make_srep by (apply sf_spec_root_len, HL). cbn [obind].
      fold (sf_srep_msg ed_sign v ok now (spec_root H v (map (leaf_of v) rs))).
      rewrite Hbo. cbn [obind].
      eexists. eexists. split; [reflexivity|]. split; [|split; [exact Hbc|]].
      + unfold RInv. cbn [r_version r_online_seed r_cert_bytes r_merkle]. repeat split; assumption.
      + intro Hf. destruct (Hbf Hf) as [Hs [Hst Hco]].
        split; [exact Hs|]. split; [exact Hst|exact Hco].
  Qed.
End Send.

(* ------------------------------------------------------------------ *)
(* accepted requests carry a nonce of the protocol's length *)

Lemma sf_wellformed_nonce : forall srv d n v,
  wellformed srv d = Some (n, v) -> length n = spec_nonce_len v.
Proof.
  intros srv d n v Hw. unfold wellformed in Hw.
  repeat match type of Hw with
         | (if ?c then _ else _) = _ => destruct c eqn:?; try discriminate Hw
         | match ?x with _ => _ end = _ => destruct x eqn:?; try discriminate Hw
         end.
  - inversion Hw; subst.
    match goal with E : (_ && (length _ =? 32)%nat) = true |- _ =>
      apply andb_true_iff in E; destruct E as [_ E]; apply Nat.eqb_eq in E; exact E end.
  - inversion Hw; subst.
    match goal with E : (length _ =? 64)%nat = true |- _ => apply Nat.eqb_eq in E; exact E end.
Qed.

Lemma sf_accepted_nonce : forall srv v ds, Forall sf_nonce_ok (accepted srv v ds).
Proof.
  intros srv v ds. induction ds as [|sd ds IH]; [constructor|].
  rewrite sf_accepted_cons. apply Forall_app. split; [|exact IH].
  destruct (wellformed srv (snd sd)) as [[n v']|] eqn:E; [|constructor].
  destruct (version_beq v v'); [|constructor].
  constructor; [|constructor].
  apply sf_wellformed_nonce in E. unfold sf_nonce_ok, req_nonce. cbn [snd].
  destruct v'; cbn in E; lia.
Qed.

(* ------------------------------------------------------------------ *)
(* one loop iteration *)

Lemma sf_empties_map : forall (r : list (list bytes)), mk_empties (map (fun _ => []) r).
Proof.
  intros r. unfold mk_empties. apply Forall_forall. intros x Hx.
  apply in_map_iff in Hx. destruct Hx as [y [Hy _]]. symmetry. exact Hy.
Qed.

Section Batch.
  Variable H : bytes -> bytes.
  Variable ed_pk : bytes -> bytes.
  Variable ed_sign : bytes -> bytes -> bytes.
  Hypothesis HL : HashLen H.
  Hypothesis HPk : PkLen ed_pk.
  Hypothesis HSig : SigLen ed_sign.
  Hypothesis Hcls : goal_classify.

  Lemma sf_one_batch : forall cfg lt oi oc s ds now coins,
    SInv H ed_pk ed_sign cfg lt oi oc s -> N.of_nat (length ds) <= 4294967296 ->
    sf_coins_ok (fault_pct cfg) coins ->
    let srv := ltk_srv_value H ed_pk lt in
    exists s' out coins',
      one_batch H ed_sign s ds now coins = Ok (s', out, coins')
      /\ SInv H ed_pk ed_sign cfg lt oi oc s'
      /\ sf_coins_ok (fault_pct cfg) coins'
      /\ (fault_pct cfg = 0 ->
          so_sent out = spec_batch_sent_f H ed_pk ed_sign (send_fails cfg) srv lt oi oc now ds
          /\ so_stats out = spec_batch_stats_f H ed_pk ed_sign (send_fails cfg) srv lt oi oc now ds
          /\ coins' = coins).
  Proof.
    intros cfg lt oi oc s ds now coins HS Hlen Hcoins srv.
    destruct s as [cfg0 srv0 [vi si ci qi [lvi tvi]] [vc sc cc qc [lvc tvc]]].
    destruct HS as [Hcfg [Hsrv [HRi HRc]]].
    cbn [s_cfg s_srv_value s_ietf s_classic] in Hcfg, Hsrv, HRi, HRc.
    destruct HRi as [Hi1 [Hi2 [Hi3 [Hi4 Hi5]]]]. destruct HRc as [Hc1 [Hc2 [Hc3 [Hc4 Hc5]]]].
    cbn [r_version r_online_seed r_cert_bytes r_merkle tver levels] in *.
    subst cfg0 srv0 vi si ci tvi vc sc cc tvc. fold srv.
    destruct lvi as [|li0 lvi]; [contradiction|]. destruct lvc as [|lc0 lvc]; [contradiction|].
    unfold one_batch. cbn [s_cfg s_srv_value s_ietf s_classic].
    unfold responder_reset, reset.
    cbn [r_version r_online_seed r_cert_bytes r_merkle tver levels map].
    destruct (sf_collect H Hcls ds srv cfg 0%nat
                RfcDraft13 oi (cert_bytes_of ed_pk ed_sign RfcDraft13 lt oi) [] []
                (map (fun _ => []) lvi)
                Google oc (cert_bytes_of ed_pk ed_sign Google lt oc) [] []
                (map (fun _ => []) lvc)) as [lg Hlg].
    cbn [app] in Hlg. rewrite Hlg. clear Hlg. cbn [obind].
    set (ai := accepted srv RfcDraft13 ds). set (ac := accepted srv Google ds).
    assert (Hleni : N.of_nat (length ai) <= 4294967296).
    { pose proof (sf_accepted_length srv RfcDraft13 ds) as Hal. fold ai in Hal. lia. }
    assert (Hlenc : N.of_nat (length ac) <= 4294967296).
    { pose proof (sf_accepted_length srv Google ds) as Hal. fold ac in Hal. lia. }
    destruct (sf_send_responses H ed_pk ed_sign HL HPk HSig cfg RfcDraft13 lt oi now ai
                (map (fun _ => []) lvi) coins (sf_empties_map lvi)
                (sf_accepted_nonce srv RfcDraft13 ds) Hleni Hcoins)
      as [ri2 [bo1 [Hs1 [HR1 [Hco1 Hf1]]]]].
    rewrite Hs1. clear Hs1. cbn [obind].
    destruct (sf_send_responses H ed_pk ed_sign HL HPk HSig cfg Google lt oc now ac
                (map (fun _ => []) lvc) (bo_coins bo1) (sf_empties_map lvc)
                (sf_accepted_nonce srv Google ds) Hlenc Hco1)
      as [rc2 [bo2 [Hs2 [HR2 [Hco2 Hf2]]]]].
    rewrite Hs2. clear Hs2. cbn [obind].
    eexists. eexists. eexists. split; [reflexivity|]. split; [|split; [exact Hco2|]].
    - unfold SInv. cbn [s_cfg s_srv_value s_ietf s_classic]. split; [reflexivity|split; [reflexivity|split; assumption]].
    - intro Hf. destruct (Hf1 Hf) as [Ha1 [Hb1 Hc1']]. destruct (Hf2 Hf) as [Ha2 [Hb2 Hc2']].
      cbn [so_sent so_stats]. unfold spec_batch_sent_f, spec_batch_stats_f, spec_batch_sent.
      fold ai ac. rewrite sf_delivered_app, Ha1, Ha2, Hb1, Hb2. repeat split.
      rewrite Hc2'. exact Hc1'.
  Qed.
End Batch.

Lemma one_batch_spec : forall H ed_pk ed_sign, goal_classify -> goal_one_batch H ed_pk ed_sign.
Proof.
  intros H ed_pk ed_sign Hcls HL HPk HSig cfg lt oi oc s ds now coins HS Hf Hok Hlen srv.
  destruct (sf_one_batch H ed_pk ed_sign HL HPk HSig Hcls cfg lt oi oc s ds now coins HS Hlen
              (or_introl Hf)) as [s' [[sent stats lg] [coins' [Hob [HS' [_ Hout]]]]]].
  destruct (Hout Hf) as [Ha [Hb Hc]]. cbn [so_sent so_stats] in Ha, Hb. subst sent stats coins'.
  exists s', lg. split; [|exact HS']. rewrite Hob. fold srv.
  unfold spec_batch_sent_f, spec_batch_stats_f, spec_batch_stats.
  rewrite (sf_delivered_all _ _ Hok), !(sf_response_stats_f_all _ _ _ Hok). reflexivity.
Qed.
Print Assumptions one_batch_spec.

(* ------------------------------------------------------------------ *)
(* the drain *)

Section Drain.
  Variable H : bytes -> bytes.
  Variable ed_pk : bytes -> bytes.
  Variable ed_sign : bytes -> bytes -> bytes.
  Hypothesis HL : HashLen H.
  Hypothesis HPk : PkLen ed_pk.
  Hypothesis HSig : SigLen ed_sign.
  Hypothesis Hcls : goal_classify.

  Lemma sf_drain : forall cfg lt oi oc clk,
    (1 <= batch_size cfg)%nat -> (batch_size cfg <= 255)%nat ->
    let srv := ltk_srv_value H ed_pk lt in
    let n := batch_size cfg in
    forall fuel s queue k coins,
      SInv H ed_pk ed_sign cfg lt oi oc s -> (length queue < fuel)%nat ->
      sf_coins_ok (fault_pct cfg) coins ->
      exists s' out,
        drain H ed_sign fuel s queue clk k coins = Ok (s', out)
        /\ SInv H ed_pk ed_sign cfg lt oi oc s'
        /\ (fault_pct cfg = 0 ->
            so_sent out = spec_drain_sent_f H ed_pk ed_sign (send_fails cfg) fuel n srv lt oi oc clk k queue
            /\ so_stats out = spec_drain_stats_f H ed_pk ed_sign (send_fails cfg) fuel n srv lt oi oc clk k queue).
  Proof.
    intros cfg lt oi oc clk Hn1 Hn255 srv n.
    induction fuel as [|f IH]; intros s queue k coins HS Hfuel Hcoins; [lia|].
    assert (Hcfg : s_cfg s = cfg) by apply HS.
    cbn [drain]. rewrite Hcfg. fold n.
    assert (Hlen : N.of_nat (length (firstn n queue)) <= 4294967296).
    { pose proof (firstn_le_length n queue). lia. }
    destruct (sf_one_batch H ed_pk ed_sign HL HPk HSig Hcls cfg lt oi oc s (firstn n queue) (clk k)
                coins HS Hlen Hcoins) as [s1 [o1 [coins1 [Hob [HS1 [Hco1 Hout1]]]]]].
    rewrite Hob. clear Hob. cbn [obind].
    destruct (length queue <? n)%nat eqn:E.
    - exists s1, o1. split; [reflexivity|]. split; [exact HS1|].
      intro Hf. destruct (Hout1 Hf) as [Ha [Hb _]].
      cbn [spec_drain_sent_f spec_drain_stats_f]. rewrite E, !app_nil_r. split; assumption.
    - apply Nat.ltb_ge in E.
      destruct (IH s1 (skipn n queue) (S k) coins1 HS1) as [s2 [o2 [Hd [HS2 Hout2]]]].
      + rewrite skipn_length. lia.
      + exact Hco1.
      + rewrite Hd. cbn [obind].
        eexists. eexists. split; [reflexivity|]. split; [exact HS2|].
        intro Hf. destruct (Hout1 Hf) as [Ha [Hb _]]. destruct (Hout2 Hf) as [Ha2 Hb2].
        cbn [so_sent so_stats spec_drain_sent_f spec_drain_stats_f].
        replace (length queue <? n)%nat with false by (symmetry; apply Nat.ltb_ge; exact E).
        rewrite Ha, Hb, Ha2, Hb2. split; reflexivity.
  Qed.
End Drain.

Lemma drain_spec_f : forall H ed_pk ed_sign, goal_classify -> goal_drain_f H ed_pk ed_sign.
Proof.
  intros H ed_pk ed_sign Hcls HL HPk HSig cfg lt oi oc s queue clk coins HS Hf Hn1 Hn255 srv n sf.
  unfold process_events.
  destruct (sf_drain H ed_pk ed_sign HL HPk HSig Hcls cfg lt oi oc clk Hn1 Hn255
              (S (length queue)) s queue 0%nat coins HS (Nat.lt_succ_diag_r _) (or_introl Hf))
    as [s' [[sent stats lg] [Hd [HS' Hout]]]].
  destruct (Hout Hf) as [Ha Hb]. cbn [so_sent so_stats] in Ha, Hb. subst sent stats.
  exists s', lg. split; [exact Hd|exact HS'].
Qed.
Print Assumptions drain_spec_f.

Lemma sf_drain_sent_all : forall H ed_pk ed_sign sf, (forall a, sf a = false) ->
  forall fuel n srv lt oi oc clk k queue,
    spec_drain_sent_f H ed_pk ed_sign sf fuel n srv lt oi oc clk k queue
    = spec_drain_sent H ed_pk ed_sign fuel n srv lt oi oc clk k queue
    /\ spec_drain_stats_f H ed_pk ed_sign sf fuel n srv lt oi oc clk k queue
      = spec_drain_stats H ed_pk ed_sign fuel n srv lt oi oc clk k queue.
Proof.
  intros H ed_pk ed_sign sf Hok fuel n srv lt oi oc clk.
  induction fuel as [|f IH]; intros k queue; [split; reflexivity|].
  cbn [spec_drain_sent_f spec_drain_stats_f spec_drain_sent spec_drain_stats].
  unfold spec_batch_sent_f, spec_batch_stats_f, spec_batch_stats.
  rewrite (sf_delivered_all _ _ Hok), !(sf_response_stats_f_all _ _ _ Hok).
  destruct (length queue <? n)%nat; [split; reflexivity|].
  destruct (IH (S k) (skipn n queue)) as [-> ->]. split; reflexivity.
Qed.

Lemma drain_spec : forall H ed_pk ed_sign, goal_classify -> goal_drain H ed_pk ed_sign.
Proof.
  intros H ed_pk ed_sign Hcls HL HPk HSig cfg lt oi oc s queue clk coins HS Hf Hok Hn1 Hn255 srv n.
  destruct (drain_spec_f H ed_pk ed_sign Hcls HL HPk HSig cfg lt oi oc s queue clk coins HS Hf Hn1 Hn255)
    as [s' [lg [Hd HS']]].
  exists s', lg. split; [|exact HS']. rewrite Hd.
  destruct (sf_drain_sent_all H ed_pk ed_sign (send_fails cfg) Hok (S (length queue)) (batch_size cfg)
              (ltk_srv_value H ed_pk lt) lt oi oc clk 0%nat queue) as [-> ->]. reflexivity.
Qed.
Print Assumptions drain_spec.

Lemma no_panic : forall H ed_pk ed_sign, goal_classify -> goal_no_panic H ed_pk ed_sign.
Proof.
  intros H ed_pk ed_sign Hcls HL HPk HSig cfg lt oi oc s queue clk coins HS Hn1 Hn255 Hcoins.
  unfold process_events.
  destruct (sf_drain H ed_pk ed_sign HL HPk HSig Hcls cfg lt oi oc clk Hn1 Hn255
              (S (length queue)) s queue 0%nat coins HS (Nat.lt_succ_diag_r _) (or_intror Hcoins))
    as [s' [out [Hd [HS' _]]]].
  exists s', out. split; [exact Hd|exact HS'].
Qed.
Print Assumptions no_panic.
