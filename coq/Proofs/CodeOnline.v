(* CodeOnline.v — OnlineKey::{classic_midp, rfc_midp, make_srep} as translated from src/key/online.rs on this run,
   against Model/Keys.v. "Equal" is up to the number of the panic site: same value, or both fail. *)
Require Import RV.Model.Bytes RV.Gen.Tables RV.Model.Tag RV.Model.Message RV.Model.Merkle RV.Model.Request
        RV.Model.Keys RV.Model.Server RV.Model.GenSupport RV.Gen.Code.
Require Import RV.Proofs.CodeLib.
From Coq Require Import ZArith Lia List.
Import ListNotations.
Local Open Scope N_scope.

Lemma gen_classic_midp_model : forall ok now, gen_classic_midp ok now = Ok (classic_midp now).
Proof. intros ok [secs nanos]. reflexivity. Qed.

Lemma gen_rfc_midp_model : forall ok now, gen_rfc_midp ok now = Ok (rfc_midp now).
Proof. reflexivity. Qed.

Lemma gen_make_srep_model : forall ed_sign ok v now root,
  ok_opt (gen_make_srep ed_sign ok v now root) = ok_opt (make_srep ed_sign v ok now root).
Proof.
  intros ed_sign ok v now root. unfold gen_make_srep, make_srep, srep_value. cbv zeta.
  destruct v; rewrite ?gen_classic_midp_model, ?gen_rfc_midp_model; cbn [obind midp_of radi_of];
    [ change (as_u32 5000000) with 5000000 | change (as_u32 5) with 5 ]; chain.
Qed.
