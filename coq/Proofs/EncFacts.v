(* EncFacts.v — generic byte / little-endian / list facts used by CodecEncode.v *)
Require Import RV.Model.Bytes.
From Coq Require Import ZArith Lia ZifyN ZifyBool ZifyNat.
Ltac Zify.zify_post_hook ::= Z.div_mod_to_equations.
Local Open Scope N_scope.

Lemma enc_b2n_n2b : forall n, b2n (n2b n) = n mod 256.
Proof.
  intro n. unfold b2n, n2b.
  destruct (Byte.of_N (n mod 256)) as [b|] eqn:E.
  - apply Byte.to_of_N. exact E.
  - apply Byte.of_N_None_iff in E.
    assert (n mod 256 < 256) by (apply N.mod_lt; discriminate). lia.
Qed.

Lemma enc_b2n_bound : forall b, b2n b <= 255.
Proof. intro b. unfold b2n. apply Byte.to_N_bounded. Qed.

Lemma enc_u32le_length : forall n, length (u32le n) = 4%nat.
Proof. reflexivity. Qed.

Lemma enc_rd32_u32le_app : forall n rest, n < two32 -> rd32 (u32le n ++ rest) = n.
Proof.
  intros n rest H. unfold u32le, rd32, two32 in *. cbn [app].
  rewrite !enc_b2n_n2b. lia.
Qed.

Lemma enc_rd32_u32le : forall n, n < two32 -> rd32 (u32le n) = n.
Proof.
  intros n H. rewrite <- (app_nil_r (u32le n)). apply enc_rd32_u32le_app. exact H.
Qed.

Lemma enc_rd32_app4 : forall w rest, length w = 4%nat -> rd32 (w ++ rest) = rd32 w.
Proof.
  intros w rest H.
  destruct w as [|a [|b [|c [|d [|e w]]]]]; try discriminate H. reflexivity.
Qed.

Lemma enc_as_u32_small : forall n, n < two32 -> as_u32 n = n.
Proof. intros n H. unfold as_u32. apply N.mod_small. exact H. Qed.

Lemma enc_skipn_app_exact : forall {A} (a b : list A) n, length a = n -> skipn n (a ++ b) = b.
Proof.
  intros A a b n H. subst n. rewrite skipn_app, skipn_all, Nat.sub_diag. reflexivity.
Qed.

Lemma enc_firstn_app_exact : forall {A} (a b : list A) n, length a = n -> firstn n (a ++ b) = a.
Proof.
  intros A a b n H. subst n. rewrite firstn_app, firstn_all, Nat.sub_diag.
  cbn [firstn]. apply app_nil_r.
Qed.

(* ---------- words of a byte string laid out as 4-byte pieces ---------- *)
Require Import RV.Gen.Tables RV.Model.Tag RV.Spec.RefCodec.

Lemma enc_words_from_S : forall bs start c,
  words_from bs start (S c) = word_at bs start :: words_from bs (S start) c.
Proof.
  intros bs start c. unfold words_from.
  cbn [seq map]. rewrite Nat.add_0_r. f_equal.
  rewrite <- seq_shift, map_map. apply map_ext. intro i.
  f_equal. lia.
Qed.

Lemma enc_concat_words_length : forall ws : list bytes,
  Forall (fun w => length w = 4%nat) ws -> length (concat ws) = (4 * length ws)%nat.
Proof.
  induction 1 as [|w ws Hw Hws IH]; [reflexivity|].
  cbn [concat length]. rewrite app_length, IH, Hw. lia.
Qed.

Lemma enc_words_from_concat : forall (ws : list bytes) pre post start,
  length pre = (4 * start)%nat ->
  Forall (fun w => length w = 4%nat) ws ->
  words_from (pre ++ concat ws ++ post) start (length ws) = map rd32 ws.
Proof.
  induction ws as [|w ws IH]; intros pre post start Hpre Hws.
  - reflexivity.
  - inversion Hws as [|w' ws' Hw Hws']; subst w' ws'.
    cbn [length map concat]. rewrite enc_words_from_S. f_equal.
    + unfold word_at. rewrite (enc_skipn_app_exact pre _ _ Hpre).
      rewrite <- app_assoc. apply enc_rd32_app4. exact Hw.
    + rewrite <- (app_assoc w), (app_assoc pre w).
      apply IH; [|exact Hws'].
      rewrite app_length, Hpre, Hw. lia.
Qed.

Lemma enc_map_rd32_u32le : forall l : list N,
  Forall (fun x => x < two32) l -> map rd32 (map u32le l) = l.
Proof.
  induction 1 as [|x l Hx Hl IH]; [reflexivity|].
  cbn [map]. rewrite IH, enc_rd32_u32le by exact Hx. reflexivity.
Qed.

Lemma enc_Forall_u32le_len : forall l : list N,
  Forall (fun w => length w = 4%nat) (map u32le l).
Proof. induction l; constructor; auto. Qed.

(* ---------- partial sums and cuts ---------- *)

Fixpoint enc_psums (sum : nat) (vals : list bytes) : list nat :=
  match vals with
  | [] => []
  | v :: r => sum :: enc_psums (sum + length v) r
  end.

Lemma enc_psums_length : forall vals s, length (enc_psums s vals) = length vals.
Proof. induction vals as [|v r IH]; intro s; cbn [enc_psums length]; [|rewrite IH]; reflexivity. Qed.

Lemma enc_canon_offsets_psums : forall vals s,
  canon_offsets s vals = concat (map u32le (map N.of_nat (enc_psums s vals))).
Proof.
  induction vals as [|v r IH]; intro s; [reflexivity|].
  cbn [canon_offsets enc_psums map concat]. rewrite IH. reflexivity.
Qed.

Lemma enc_cuts_psums : forall (vs : list bytes) pre v0,
  cuts (pre ++ v0 ++ concat vs) (length pre) (enc_psums (length pre + length v0) vs) = v0 :: vs.
Proof.
  induction vs as [|v1 vs IH]; intros pre v0.
  - cbn [enc_psums cuts concat]. rewrite enc_skipn_app_exact by reflexivity.
    rewrite app_nil_r. reflexivity.
  - cbn [enc_psums cuts concat]. f_equal.
    + rewrite enc_skipn_app_exact by reflexivity.
      apply enc_firstn_app_exact. lia.
    + rewrite (app_assoc pre v0). rewrite <- (app_length pre v0). apply IH.
Qed.

Lemma enc_cuts_concat : forall v0 vs,
  cuts (concat (v0 :: vs)) 0 (enc_psums (length v0) vs) = v0 :: vs.
Proof. intros v0 vs. exact (enc_cuts_psums vs [] v0). Qed.

Lemma enc_combine_fst_snd : forall {A B} (l : list (A * B)), combine (map fst l) (map snd l) = l.
Proof. induction l as [|[a b] l IH]; [reflexivity|]. cbn [map combine fst snd]. rewrite IH. reflexivity. Qed.

Lemma enc_map_to_nat_of_nat : forall l : list nat, map N.to_nat (map N.of_nat l) = l.
Proof.
  induction l as [|x l IH]; [reflexivity|]. cbn [map]. rewrite IH, Nat2N.id. reflexivity.
Qed.
