(* CodeGreaseRate.v — the decision "corrupt this response?" as translated from src/grease.rs on this run
   (Grease::new, Grease::should_add_error), over rand's Bernoulli as REFLECTED from the compiled crate
   (Gen/Tables.v bernoulli_threshold): for a fault percentage p the decision is true for exactly t(p) of the
   2^64 outputs the generator can produce next, and t(p) / 2^64 differs from p / 100 by less than 2^-46. *)
Require Import RV.Model.Bytes RV.Gen.Tables RV.Model.Tag RV.Model.Message RV.Model.GenSupport RV.Gen.Code.
From Coq Require Import NArith ZArith List Lia Bool.
Import ListNotations.
Local Open Scope N_scope.

Definition two64 : N := 18446744073709551616.

Theorem gen_grease_new_model : forall entropy fp,
  gen_grease_new entropy fp = Ok (0 <? fp, (fp, 100), entropy).
Proof. reflexivity. Qed.

(* one decision: with the generator's next output v *)
Theorem gen_should_add_error_model : forall enabled dist v r,
  gen_should_add_error enabled dist (v :: r)
  = Ok (if enabled then (v <? bern_threshold dist, r) else (false, v :: r)).
Proof. intros [|] dist v r; reflexivity. Qed.

(* the reflected thresholds: one per percentage 0..100, none above 2^64, 0 for 0, and within 2^18 / 100 of
   p * 2^64 / 100 — checked over the whole table by computation *)
Definition threshold_ok (p : N) : bool :=
  let t := bern_threshold (p, 100) in
  (t <=? two64)
  && (if p =? 0 then t =? 0 else true)
  && (Z.abs (Z.of_N t * 100 - Z.of_N p * Z.of_N two64) <? 262144)%Z.

Lemma thresholds_checked : forallb threshold_ok (map N.of_nat (seq 0 101)) = true.
Proof. vm_compute. reflexivity. Qed.

Lemma threshold_ok_all : forall p, p <= 100 -> threshold_ok p = true.
Proof.
  intros p Hp. pose proof thresholds_checked as H. rewrite forallb_forall in H. apply H.
  apply in_map_iff. exists (N.to_nat p). split; [lia|]. apply in_seq. lia.
Qed.

(* the share of generator outputs for which a response is corrupted *)
Theorem fault_rate : forall p, p <= 100 ->
  let t := bern_threshold (p, 100) in
  t <= two64 /\ (p = 0 -> t = 0) /\
  (Z.abs (Z.of_N t * 100 - Z.of_N p * Z.of_N two64) < 262144)%Z.
Proof.
  intros p Hp t. pose proof (threshold_ok_all p Hp) as H. unfold threshold_ok in H. fold t in H.
  apply andb_true_iff in H. destruct H as [H H3]. apply andb_true_iff in H. destruct H as [H1 H2].
  split; [apply N.leb_le; exact H1|]. split.
  - intros ->. change (0 =? 0) with true in H2. apply N.eqb_eq. exact H2.
  - apply Z.ltb_lt. exact H3.
Qed.

(* composed: a server configured with fault percentage p decides, for the generator's next output v,
   "corrupt" exactly when v is below t(p) — never when p = 0 *)
Theorem gen_fault_decision : forall p entropy v r,
  gen_grease_new entropy p = Ok (0 <? p, (p, 100), entropy) /\
  gen_should_add_error (0 <? p) (p, 100) (v :: r)
  = Ok (if 0 <? p then (v <? bern_threshold (p, 100), r) else (false, v :: r)).
Proof. intros. split; [reflexivity|apply gen_should_add_error_model]. Qed.

Corollary gen_no_faults_at_zero : forall v r, gen_should_add_error (0 <? 0) (0, 100) (v :: r) = Ok (false, v :: r).
Proof. reflexivity. Qed.
