(* CodeLoad.v — the configuration loaders translated from src/config/file.rs, src/config/environment.rs
   and src/key/mod.rs (Gen/Code.v) equal the hand-written LoadModel.v; what the written text means for
   the settings the server runs with (C16). *)
From Coq Require Import ZArith List Bool Lia String.
Require Import RV.Model.Bytes RV.Gen.Tables RV.Model.Config RV.Model.ConfigLoad RV.Model.GenSupport
        RV.Model.LoadModel RV.Gen.Code.
Require Import RV.Proofs.LoadLib RV.Proofs.ConfigFacts.
Import ListNotations.
Local Open Scope Z_scope.

Definition bs (s : string) : bytes := list_byte_of_string s.

(* the byte lists of LoadModel.v are the texts their comments say *)
Lemma texts_are : True
  /\ t_ROUGHENOUGH_BATCH_SIZE = bs "ROUGHENOUGH_BATCH_SIZE"
  /\ t_ROUGHENOUGH_CLIENT_STATS = bs "ROUGHENOUGH_CLIENT_STATS"
  /\ t_ROUGHENOUGH_FAULT_PERCENTAGE = bs "ROUGHENOUGH_FAULT_PERCENTAGE"
  /\ t_ROUGHENOUGH_HEALTH_CHECK_PORT = bs "ROUGHENOUGH_HEALTH_CHECK_PORT"
  /\ t_ROUGHENOUGH_INTERFACE = bs "ROUGHENOUGH_INTERFACE"
  /\ t_ROUGHENOUGH_KMS_PROTECTION = bs "ROUGHENOUGH_KMS_PROTECTION"
  /\ t_ROUGHENOUGH_NUM_WORKERS = bs "ROUGHENOUGH_NUM_WORKERS"
  /\ t_ROUGHENOUGH_PERSISTENCE_DIRECTORY = bs "ROUGHENOUGH_PERSISTENCE_DIRECTORY"
  /\ t_ROUGHENOUGH_PORT = bs "ROUGHENOUGH_PORT"
  /\ t_ROUGHENOUGH_SEED = bs "ROUGHENOUGH_SEED"
  /\ t_ROUGHENOUGH_STATUS_INTERVAL = bs "ROUGHENOUGH_STATUS_INTERVAL"
  /\ t_batch_size = bs "batch_size"
  /\ t_client_stats = bs "client_stats"
  /\ t_fault_percentage = bs "fault_percentage"
  /\ t_health_check_port = bs "health_check_port"
  /\ t_interface = bs "interface"
  /\ t_kms_protection = bs "kms_protection"
  /\ t_num_workers = bs "num_workers"
  /\ t_on = bs "on"
  /\ t_persistence_directory = bs "persistence_directory"
  /\ t_port = bs "port"
  /\ t_seed = bs "seed"
  /\ t_status_interval = bs "status_interval"
  /\ t_yes = bs "yes".
Proof. repeat split. Qed.

(* ------------------------------------------------------------------ translated = hand-written *)

Lemma gen_kms_from_str_model : forall s, gen_kms_from_str s = kms_from_str s.
Proof. intros s. reflexivity. Qed.

Lemma gen_checked_int_model : forall tmax key v, gen_checked_int tmax key v = file_int tmax v.
Proof.
  intros tmax key v. unfold gen_checked_int, file_int, y_as_i64, try_from_i64.
  destruct v as [z|s|]; cbn [unwrap_c obind]; try reflexivity.
  destruct ((i64_min <=? z) && (z <=? i64_max)); cbn [unwrap_c obind]; [|reflexivity].
  destruct ((0 <=? z) && (z <=? tmax)); reflexivity.
Qed.

Lemma fold_out_ext : forall E S A (F G : S -> A -> outcome E S) l s,
  (forall s x, F s x = G s x) -> fold_out F l s = fold_out G l s.
Proof.
  intros E S A F G l. induction l as [|x l IH]; intros s H; cbn [fold_out]; [reflexivity|].
  rewrite H. destruct (G s x); cbn [obind]; try reflexivity. apply IH. exact H.
Qed.

(* the tuple of variables the translated loop carries, in the order the translator lists them *)
Definition lc_tuple (c : lcfg) :=
  (lc_port c, lc_interface c, lc_batch c, lc_seed c, lc_status c, lc_kms c, lc_health c, lc_cstats c,
   lc_pdir c, lc_fault c, lc_workers c).
Definition lc_of_tuple (t : Z * bytes * Z * bytes * Z * kmsprot * option Z * bool * option bytes * Z * Z) : lcfg :=
  let '(port, iface, batch, seed, status, kms, health, cstats, pdir, fault, workers) := t in
  mklcfg port iface seed batch status kms health cstats fault workers pdir.

Lemma lc_tuple_of : forall t, lc_tuple (lc_of_tuple t) = t.
Proof. intros [[[[[[[[[[a b] c] d] e] f] g] h] i] j] k]. reflexivity. Qed.
Lemma lc_of_tuple_of : forall c, lc_of_tuple (lc_tuple c) = c.
Proof. intros []. reflexivity. Qed.

Lemma fold_out_tuple : forall (F : _ -> yval * yval -> cres _) l t,
  (forall t x, F t x = obind (file_step (lc_of_tuple t) x) (fun c => Ok (lc_tuple c))) ->
  fold_out F l t = obind (fold_out file_step l (lc_of_tuple t)) (fun c => Ok (lc_tuple c)).
Proof.
  intros F l. induction l as [|x l IH]; intros t HF; cbn [fold_out].
  - cbn [obind]. rewrite lc_tuple_of. reflexivity.
  - rewrite HF. destruct (file_step (lc_of_tuple t) x) as [c|e|p]; cbn [obind]; try reflexivity.
    rewrite IH by exact HF. rewrite lc_of_tuple_of. reflexivity.
Qed.

Ltac bs_eval := unfold t_ROUGHENOUGH_BATCH_SIZE, t_ROUGHENOUGH_CLIENT_STATS, t_ROUGHENOUGH_FAULT_PERCENTAGE, t_ROUGHENOUGH_HEALTH_CHECK_PORT, t_ROUGHENOUGH_INTERFACE, t_ROUGHENOUGH_KMS_PROTECTION, t_ROUGHENOUGH_NUM_WORKERS, t_ROUGHENOUGH_PERSISTENCE_DIRECTORY, t_ROUGHENOUGH_PORT, t_ROUGHENOUGH_SEED, t_ROUGHENOUGH_STATUS_INTERVAL, t_batch_size, t_client_stats, t_fault_percentage, t_health_check_port, t_interface, t_kms_protection, t_num_workers, t_on, t_persistence_directory, t_port, t_seed, t_status_interval, t_yes.

Theorem gen_file_config_new_model : forall cores docs f,
  gen_file_config_new cores docs f = file_load cores docs.
Proof.
  intros cores docs f. unfold gen_file_config_new, file_load.
  destruct docs as [ds|e|p]; cbn [obind]; try reflexivity.
  destruct ds as [|d [|d2 r]].
  - reflexivity.
  - change (Z.of_N (lenN [d]) =? 1) with true. cbn [negb obind].
    destruct d as [entries|]; cbn [doc_hash obind]; [|reflexivity].
    rewrite fold_out_tuple with (t := lc_tuple (lc_default cores)).
    + rewrite lc_of_tuple_of.
      destruct (fold_out file_step entries (lc_default cores)) as [c|e|p]; cbn [obind]; try reflexivity.
      destruct c; reflexivity.
    + clear. intros t [k v].
      destruct t as [[[[[[[[[[port iface] batch] seed] status] kms] health] cstats] pdir] fault] workers].
      unfold file_step. cbn [fst snd lc_of_tuple].
      destruct k as [kz|name|]; cbn [y_as_str file_str unwrap_c obind]; try reflexivity.
      cbn [lookup_key fkey_table]. unfold enabling, hex_decode_r. bs_eval.
      rewrite ?gen_checked_int_model, ?gen_kms_from_str_model.
      repeat match goal with
             | |- context [if bytes_eqb name ?b then _ else _] =>
                 destruct (bytes_eqb name b);
                 [ cbn [file_tmax];
                   try (match goal with |- context [file_int ?m v] => destruct (file_int m v) end);
                   try (destruct v as [vz|vs|]; cbn [y_as_str file_str unwrap_c obind]);
                   try reflexivity;
                   try (destruct (hex_decode vs); reflexivity);
                   try (change (gen_kms_from_str vs) with (kms_from_str vs); destruct (kms_from_str vs); reflexivity) | ]
             end.
      reflexivity.
  - assert (H : negb (Z.of_N (lenN (d :: d2 :: r)) =? 1) = true).
    { unfold lenN. cbn [length]. apply negb_true_iff, Z.eqb_neq. lia. }
    rewrite H. destruct d; reflexivity.
Qed.

Lemma obind_ext2 : forall E A B (x y : outcome E A) (f g : A -> outcome E B),
  x = y -> (forall a, f a = g a) -> obind x f = obind y g.
Proof. intros E A B x y f g -> H. destruct y; cbn [obind]; try reflexivity. apply H. Qed.

Theorem gen_env_config_new_model : forall cores env,
  gen_env_config_new cores env = env_load cores env.
Proof.
  intros cores env. unfold gen_env_config_new, env_load. cbn [lc_default lc_port lc_interface lc_seed
    lc_batch lc_status lc_kms lc_health lc_cstats lc_fault lc_workers lc_pdir env_name env_tmax].
  unfold enabling. bs_eval.
  repeat (apply obind_ext2;
          [ unfold env_var, env_setting;
            match goal with |- context [env ?n] => destruct (env n) as [sv|] end; try reflexivity;
            cbn [obind unwrap_c];
            try match goal with |- context [parse_KmsProtection ?x] => change (parse_KmsProtection x) with (kms_from_str x) end;
            unfold parse_u8, parse_u16, parse_usize, parse_String;
            match goal with
            | |- context [parse_as ?m ?x] => destruct (parse_as m x); reflexivity
            | |- context [hex_decode_r ?x] => destruct (hex_decode_r x); reflexivity
            | |- context [kms_from_str ?x] => destruct (kms_from_str x); reflexivity
            | |- _ => reflexivity
            end
          | intro ]).
  reflexivity.
Qed.

(* ------------------------------------------------------------------ the file loader: what the text means *)
Require Import RV.Proofs.BytesFacts.

Lemma key_lookup_name : forall k, lookup_key fkey_table (key_name k) = Some (FInt k).
Proof. intros []; vm_compute; reflexivity. Qed.

Lemma lookup_int_name : forall name k, lookup_key fkey_table name = Some (FInt k) -> name = key_name k.
Proof.
  intros name k. cbn [lookup_key fkey_table].
  repeat match goal with
         | |- context [if bytes_eqb name ?b then _ else _] =>
             let E := fresh "E" in
             destruct (bytes_eqb name b) eqn:E;
             [ apply bytes_eqb_eq in E; intros H; try discriminate H; injection H as <-; exact E | ]
         end.
  discriminate.
Qed.

(* checked_int on a YAML integer is the integer-level loader of Config.v *)
Lemma file_tmax_load : forall k z,
  file_int (file_tmax k) (YInt z) = match load File k z with Some v => Ok v | None =>
     if (i64_min <=? z) && (z <=? i64_max) then Err InvalidConfiguration else Panic site_gen end.
Proof.
  intros k z. unfold file_int, load, i64_min, i64_max.
  destruct ((-9223372036854775808 <=? z) && (z <=? 9223372036854775807)) eqn:Er.
  - destruct k; cbn [file_tmax type_max]; unfold tmax_u8, tmax_u16, tmax_u64, tmax_usize;
      match goal with |- (if ?a then _ else _) = match (if ?b then _ else _) with _ => _ end =>
        assert (Hab : a = b) by lia; try rewrite Hab; destruct b; reflexivity end.
  - assert (Hn : (0 <=? z) && (z <=? type_max File k) = false) by (destruct k; cbn [type_max]; lia).
    rewrite Hn. reflexivity.
Qed.

Lemma file_int_ok : forall k v z, file_int (file_tmax k) v = Ok z -> v = YInt z /\ load File k z = Some z.
Proof.
  intros k v z H. destruct v as [z0|s|]; try discriminate H.
  rewrite file_tmax_load in H. destruct (load File k z0) as [w|] eqn:L.
  - injection H as ->.
    assert (Hz : z = z0).
    { unfold load in L. destruct ((0 <=? z0) && (z0 <=? type_max File k)); [|discriminate L].
      injection L as <-. reflexivity. }
    subst z0. split; [reflexivity|exact L].
  - destruct ((i64_min <=? z0) && (z0 <=? i64_max)); discriminate H.
Qed.

Lemma lc_get_set_same : forall k z c, lc_get k (lc_set k z c) = Some z.
Proof. intros [] z c; reflexivity. Qed.
Lemma lc_get_set_other : forall k k0 z c, k <> k0 -> lc_get k (lc_set k0 z c) = lc_get k c.
Proof. intros [] [] z c H; try reflexivity; congruence. Qed.

(* one entry of the file: the integer setting it names gets exactly the integer written, which the
   field's type holds; every other integer setting is left alone *)
Lemma file_step_entry : forall c name v c', file_step c (YStr name, v) = Ok c' ->
  forall k, if bytes_eqb name (key_name k)
            then exists z, v = YInt z /\ load File k z = Some z /\ lc_get k c' = Some z
            else lc_get k c' = lc_get k c.
Proof.
  intros c name v c' H k. unfold file_step in H. cbn [fst snd file_str obind] in H.
  destruct (bytes_eqb name (key_name k)) eqn:E.
  - apply bytes_eqb_eq in E. subst name. rewrite key_lookup_name in H.
    destruct (file_int (file_tmax k) v) as [z|e|p] eqn:Ei; cbn [obind] in H; try discriminate H.
    injection H as <-. apply file_int_ok in Ei. destruct Ei as [-> Hl].
    exists z. repeat split; [exact Hl|apply lc_get_set_same].
  - destruct (lookup_key fkey_table name) as [[k0|sk]|] eqn:L; [| |discriminate H].
    + destruct (file_int (file_tmax k0) v) as [z|e|p]; cbn [obind] in H; try discriminate H.
      injection H as <-. apply lc_get_set_other. intros ->.
      apply lookup_int_name in L. subst name. rewrite bytes_eqb_refl in E. discriminate.
    + destruct sk; cbn [obind] in H.
      * destruct (file_str v); cbn [obind] in H; try discriminate H. injection H as <-. destruct k; reflexivity.
      * destruct (file_str v); cbn [obind] in H; try discriminate H.
        destruct (hex_decode a); try discriminate H. injection H as <-. destruct k; reflexivity.
      * destruct (file_str v); cbn [obind] in H; try discriminate H.
        destruct (unwrap_c site_gen (kms_from_str a)); cbn [obind] in H; try discriminate H.
        injection H as <-. destruct k; reflexivity.
      * destruct (file_str v); cbn [obind] in H; try discriminate H. injection H as <-. destruct k; reflexivity.
      * injection H as <-. destruct k; reflexivity.
Qed.

Lemma file_step_key_is_string : forall c kv c', file_step c kv = Ok c' -> exists name, fst kv = YStr name.
Proof.
  intros c [k v] c' H. unfold file_step in H. cbn [fst] in *.
  destruct k as [z|name|]; try discriminate H. exists name. reflexivity.
Qed.

Theorem file_fold_written : forall entries c0 c, fold_out file_step entries c0 = Ok c ->
  forall k, match last_written entries (key_name k) with
            | Some v => exists z, v = YInt z /\ load File k z = Some z /\ lc_get k c = Some z
            | None => lc_get k c = lc_get k c0
            end.
Proof.
  induction entries as [|[ky v] r IH]; intros c0 c H k; cbn [fold_out] in H.
  - injection H as <-. reflexivity.
  - destruct (file_step c0 (ky, v)) as [c1|e|p] eqn:E1; cbn [obind] in H; try discriminate H.
    specialize (IH c1 c H k). cbn [last_written].
    destruct (last_written r (key_name k)) as [v'|]; [exact IH|].
    destruct (file_step_key_is_string _ _ _ E1) as [name Hn]. cbn [fst] in Hn. subst ky.
    pose proof (file_step_entry _ _ _ _ E1 k) as Hs.
    destruct (bytes_eqb name (key_name k)).
    + destruct Hs as (z & -> & Hl & Hg). exists z. repeat split; [exact Hl|congruence].
    + congruence.
Qed.

(* FileConfig::new, as translated: when it returns a configuration, every integer setting has the value
   its last line in the file gives it (and that value fits the field's type), or its default when no
   line names it *)
Theorem gen_file_written : forall cores entries f c,
  gen_file_config_new cores (Ok [DHash entries]) f = Ok c ->
  forall k, match last_written entries (key_name k) with
            | Some v => exists z, v = YInt z /\ load File k z = Some z /\ lc_get k c = Some z
            | None => lc_get k c = lc_get k (lc_default cores)
            end.
Proof.
  intros cores entries f c H. rewrite gen_file_config_new_model in H. cbn [file_load obind] in H.
  apply file_fold_written. exact H.
Qed.

(* ... and EVERY line must be acceptable, not only the last one for its key: a line whose integer does
   not fit, whose key is unknown or whose value has the wrong type refuses the start *)
Definition entry_ok (kv : yval * yval) : Prop :=
  exists name, fst kv = YStr name /\
  match lookup_key fkey_table name with
  | Some (FInt k) => exists z, snd kv = YInt z /\ load File k z = Some z
  | Some (FOther SSeed) => exists s, snd kv = YStr s /\ hex_decode s <> None
  | Some (FOther SKms) => exists s x, snd kv = YStr s /\ kms_from_str s = Ok x
  | Some (FOther SPdir) => True
  | Some (FOther _) => exists s, snd kv = YStr s
  | None => False
  end.

Lemma file_step_ok : forall c kv c', file_step c kv = Ok c' -> entry_ok kv.
Proof.
  intros c [ky v] c' H. destruct (file_step_key_is_string _ _ _ H) as [name Hn]. cbn [fst] in Hn. subst ky.
  exists name. split; [reflexivity|]. unfold file_step in H. cbn [fst snd file_str obind] in *.
  destruct (lookup_key fkey_table name) as [[k0|sk]|]; [| |discriminate H].
  - destruct (file_int (file_tmax k0) v) as [z|e|p] eqn:Ei; cbn [obind] in H; try discriminate H.
    apply file_int_ok in Ei. exists z. exact Ei.
  - destruct sk; try exact I; destruct v as [z|s|]; cbn [file_str obind] in H; try discriminate H.
    + exists s. reflexivity.
    + exists s. split; [reflexivity|]. destruct (hex_decode s); [discriminate|discriminate H].
    + destruct (kms_from_str s) as [x|e|p] eqn:Ek; cbn [unwrap_c obind] in H; try discriminate H.
      exists s, x. split; [reflexivity|exact Ek].
    + exists s. reflexivity.
Qed.

Theorem gen_file_every_line_ok : forall cores entries f c,
  gen_file_config_new cores (Ok [DHash entries]) f = Ok c -> Forall entry_ok entries.
Proof.
  intros cores entries f c H. rewrite gen_file_config_new_model in H. cbn [file_load obind] in H.
  revert H. generalize (lc_default cores). induction entries as [|kv r IH]; intros c0 H; [constructor|].
  cbn [fold_out] in H. destruct (file_step c0 kv) as [c1|e|p] eqn:E1; cbn [obind] in H; try discriminate H.
  constructor; [eapply file_step_ok; exact E1|eapply IH; exact H].
Qed.

(* an empty file, several documents, or a document that is not a mapping never yield a configuration *)
Theorem gen_file_shape : forall cores docs f c,
  gen_file_config_new cores docs f = Ok c -> exists entries, docs = Ok [DHash entries].
Proof.
  intros cores docs f c H. rewrite gen_file_config_new_model in H. unfold file_load in H.
  destruct docs as [ds|e|p]; cbn [obind] in H; try discriminate H.
  destruct ds as [|[entries|] [|d2 r]]; try discriminate H. exists entries. reflexivity.
Qed.

(* ------------------------------------------------------------------ the environment loader *)
Lemma env_tmax_is : forall k, env_tmax k = type_max Env k.
Proof. intros []; reflexivity. Qed.

Lemma env_setting_int : forall env n m d z, env_setting env n (parse_as m) d = Ok z ->
  match env n with Some s => parse_uint m s = Some z | None => z = d end.
Proof.
  intros env n m d z H. unfold env_setting in H. destruct (env n) as [s|].
  - unfold parse_as in H. destruct (parse_uint m s); cbn [unwrap_c] in H; [injection H as <-; reflexivity|discriminate H].
  - injection H as <-. reflexivity.
Qed.

Lemma env_setting_health : forall env n m d z,
  env_setting env n (fun s => match parse_as m s with Ok z => Ok (Some z) | Err e => Err e | Panic p => Panic p end) d = Ok z ->
  match env n with Some s => exists w, parse_uint m s = Some w /\ z = Some w | None => z = d end.
Proof.
  intros env n m d z H. unfold env_setting in H. destruct (env n) as [s|].
  - unfold parse_as in H. destruct (parse_uint m s) as [w|]; cbn [unwrap_c] in H; [|discriminate H].
    injection H as <-. exists w. split; reflexivity.
  - injection H as <-. reflexivity.
Qed.

Theorem env_load_written : forall cores env c, env_load cores env = Ok c ->
  forall k, match env (env_name k) with
            | Some s => exists z, parse_uint (type_max Env k) s = Some z /\ lc_get k c = Some z
            | None => lc_get k c = lc_get k (lc_default cores)
            end.
Proof.
  intros cores env c H k. unfold env_load in H. rewrite !env_tmax_is in H.
  repeat match type of H with
         | obind ?x _ = Ok _ => let E := fresh "E" in destruct x eqn:E; cbn [obind] in H; try discriminate H
         end.
  injection H as <-.
  destruct k; cbn [lc_get lc_port lc_batch lc_status lc_health lc_fault lc_workers lc_default];
    match goal with
    | E : env_setting env (env_name ?kk) (parse_as _) _ = Ok _ |- context [env (env_name ?kk)] =>
        apply env_setting_int in E; destruct (env (env_name kk)) as [s|];
        [eexists; split; [exact E|reflexivity] | subst; reflexivity]
    | E : env_setting env (env_name CHealth) _ _ = Ok _ |- context [env (env_name CHealth)] =>
        apply env_setting_health in E; destruct (env (env_name CHealth)) as [s|];
        [destruct E as (w & Hw & ->); exists w; split; [exact Hw|reflexivity] | subst; reflexivity]
    end.
Qed.

(* the decimal text of an integer, parsed in the field's type, is Config.v's integer-level loader *)
Lemma parse_dec_load : forall s k z, 0 <= z -> parse_uint (type_max s k) (to_dec z) = load s k z.
Proof.
  intros s k z Hz. unfold load.
  assert (Hm : 0 <= type_max s k) by (destruct s, k; cbn [type_max]; lia).
  destruct (z <=? type_max s k) eqn:E.
  - replace (0 <=? z) with true by (symmetry; apply Z.leb_le; exact Hz). cbn [andb].
    apply parse_uint_to_dec. apply Z.leb_le in E. lia.
  - rewrite andb_false_r. apply parse_uint_to_dec_overflow. apply Z.leb_gt in E. lia.
Qed.

Lemma load_some_eq : forall s k z v, load s k z = Some v -> v = z.
Proof. intros s k z v. unfold load. destruct ((0 <=? z) && (z <=? type_max s k)); [|discriminate]. intros H. injection H as <-. reflexivity. Qed.

(* ------------------------------------------------------------------ loader + validator = `effective` *)
Lemma loaded_valid_effective : forall src c ds ap k z,
  is_valid_config (to_settings c ds ap) = VOk true -> lc_get k c = Some z -> load src k z = Some z ->
  effective src k z = Running z.
Proof.
  intros src c ds ap k z Hv Hg Hl. apply valid_config_iff in Hv. unfold effective. rewrite Hl.
  assert (Hval : valid k z = true).
  { unfold config_ok in Hv. cbn [to_settings s_port s_interface_empty s_seed_len s_kms s_batch s_fault
      s_workers s_client_stats s_pdir s_addr_parses] in Hv.
    repeat (apply andb_true_iff in Hv; let H2 := fresh "Hc" in destruct Hv as [Hv H2]).
    destruct k; cbn [lc_get] in Hg; cbn [valid]; try reflexivity; injection Hg as <-;
      try assumption; apply andb_true_iff; split; assumption. }
  rewrite Hval. reflexivity.
Qed.

(* the file: a configuration that loads and validates runs, for every integer setting the file names,
   with exactly the value of the setting's last line — which is therefore a value `effective` accepts *)
Theorem gen_file_start_effective : forall cores entries f c ds ap,
  gen_file_config_new cores (Ok [DHash entries]) f = Ok c ->
  is_valid_config (to_settings c ds ap) = VOk true ->
  forall k v, last_written entries (key_name k) = Some v ->
  exists z, v = YInt z /\ lc_get k c = Some z /\ effective File k z = Running z.
Proof.
  intros cores entries f c ds ap Hl Hv k v Hw.
  pose proof (gen_file_written _ _ _ _ Hl k) as H. rewrite Hw in H. destruct H as (z & -> & Hld & Hg).
  exists z. repeat split; [exact Hg|]. eapply loaded_valid_effective; eassumption.
Qed.

(* the environment: the same, for a variable holding the decimal text of z *)
Theorem gen_env_start_effective : forall cores env c ds ap,
  gen_env_config_new cores env = Ok c ->
  is_valid_config (to_settings c ds ap) = VOk true ->
  forall k z, 0 <= z -> env (env_name k) = Some (to_dec z) ->
  lc_get k c = Some z /\ effective Env k z = Running z.
Proof.
  intros cores env c ds ap Hl Hv k z Hz He. rewrite gen_env_config_new_model in Hl.
  pose proof (env_load_written _ _ _ Hl k) as H. rewrite He in H. destruct H as (w & Hp & Hg).
  rewrite parse_dec_load in Hp by exact Hz. pose proof (load_some_eq _ _ _ _ Hp) as ->.
  split; [exact Hg|]. eapply loaded_valid_effective; eassumption.
Qed.

(* a variable whose text is not a number of the field's type refuses the start *)
Theorem gen_env_refuses_unparsable : forall cores env k s,
  env (env_name k) = Some s -> parse_uint (type_max Env k) s = None ->
  forall c, gen_env_config_new cores env <> Ok c.
Proof.
  intros cores env k s He Hp c Hl. rewrite gen_env_config_new_model in Hl.
  pose proof (env_load_written _ _ _ Hl k) as H. rewrite He in H. destruct H as (w & Hw & _). congruence.
Qed.

(* in particular the decimal text of an integer the field's type cannot hold (the former wrap points) *)
Corollary gen_env_refuses_out_of_type : forall cores env k z,
  type_max Env k < z -> env (env_name k) = Some (to_dec z) -> forall c, gen_env_config_new cores env <> Ok c.
Proof.
  intros cores env k z Hz He. eapply gen_env_refuses_unparsable; [exact He|].
  apply parse_uint_to_dec_overflow. split; [destruct k; cbn [type_max]; lia|exact Hz].
Qed.

(* unset variables leave the defaults *)
Theorem gen_env_defaults : forall cores env c,
  gen_env_config_new cores env = Ok c -> forall k, env (env_name k) = None -> lc_get k c = lc_get k (lc_default cores).
Proof.
  intros cores env c Hl k He. rewrite gen_env_config_new_model in Hl.
  pose proof (env_load_written _ _ _ Hl k) as H. rewrite He in H. exact H.
Qed.

(* non-vacuity: a concrete file and a concrete environment that load, with the values written *)
Example file_example :
  gen_file_config_new 8 (Ok [DHash [(YStr (bs "port"), YInt 8686); (YStr (bs "interface"), YStr (bs "127.0.0.1"));
                                    (YStr (bs "batch_size"), YInt 32); (YStr (bs "port"), YInt 2002)]]) []
  = Ok (mklcfg 2002 (bs "127.0.0.1") [] 32 600 KPlaintext None false 0 8 None)
  /\ gen_file_config_new 8 (Ok [DHash [(YStr (bs "port"), YInt 70000)]]) [] = Err InvalidConfiguration
  /\ gen_file_config_new 8 (Ok [DHash [(YStr (bs "batch_size"), YInt 300)]]) [] = Err InvalidConfiguration
  /\ gen_file_config_new 8 (Ok [DHash [(YStr (bs "bogus"), YInt 1)]]) [] = Err InvalidConfiguration
  /\ gen_file_config_new 8 (Ok [DHash [(YStr (bs "port"), YStr (bs "80"))]]) [] = Panic site_gen.
Proof. vm_compute. repeat split. Qed.

Example env_example :
  let env := fun n => if bytes_eqb n (bs "ROUGHENOUGH_PORT") then Some (bs "+8686")
                      else if bytes_eqb n (bs "ROUGHENOUGH_CLIENT_STATS") then Some (bs "YeS") else None in
  gen_env_config_new 8 env = Ok (mklcfg 8686 [] [] 64 600 KPlaintext None true 0 8 None)
  /\ gen_env_config_new 8 (fun n => if bytes_eqb n (bs "ROUGHENOUGH_PORT") then Some (bs "65536") else None) = Panic site_gen
  /\ gen_env_config_new 8 (fun n => if bytes_eqb n (bs "ROUGHENOUGH_BATCH_SIZE") then Some (bs " 8") else None) = Panic site_gen.
Proof. vm_compute. repeat split. Qed.

(* ------------------------------------------------------------------ make_config: the argument selects the source *)
Definition t_ENV : bytes := [x45; x4e; x56].   (* "ENV" *)

Theorem gen_make_config_model : forall cores env fs arg,
  gen_make_config cores env fs arg
  = if bytes_eqb arg t_ENV then env_load cores env else file_load cores (fs arg).
Proof.
  intros cores env fs arg. unfold gen_make_config, t_ENV.
  rewrite gen_env_config_new_model, gen_file_config_new_model.
  destruct (bytes_eqb arg [x45; x4e; x56]).
  - destruct (env_load cores env); reflexivity.
  - destruct (file_load cores (fs arg)); reflexivity.
Qed.

(* ------------------------------------------------------------------ the seed line *)
Lemma lookup_seed_name : forall name, lookup_key fkey_table name = Some (FOther SSeed) -> name = t_seed.
Proof.
  intros name. cbn [lookup_key fkey_table].
  repeat match goal with
         | |- context [if bytes_eqb name ?b then _ else _] =>
             let E := fresh "E" in
             destruct (bytes_eqb name b) eqn:E;
             [ apply bytes_eqb_eq in E; intros H; try discriminate H; exact E | ]
         end.
  discriminate.
Qed.

Lemma lookup_seed : lookup_key fkey_table t_seed = Some (FOther SSeed).
Proof. vm_compute. reflexivity. Qed.

Lemma lc_seed_set : forall k z c, lc_seed (lc_set k z c) = lc_seed c.
Proof. intros [] z c; reflexivity. Qed.

Lemma file_step_seed : forall c name v c', file_step c (YStr name, v) = Ok c' ->
  if bytes_eqb name t_seed
  then exists s, v = YStr s /\ hex_decode s = Some (lc_seed c')
  else lc_seed c' = lc_seed c.
Proof.
  intros c name v c' H. unfold file_step in H. cbn [fst snd file_str obind] in H.
  destruct (bytes_eqb name t_seed) eqn:E.
  - apply bytes_eqb_eq in E. subst name. rewrite lookup_seed in H.
    destruct v as [z|s|]; cbn [file_str obind] in H; try discriminate H.
    destruct (hex_decode s) as [b|] eqn:Eh; [|discriminate H]. injection H as <-.
    exists s. split; [reflexivity|exact Eh].
  - destruct (lookup_key fkey_table name) as [[k0|sk]|] eqn:L; [| |discriminate H].
    + destruct (file_int (file_tmax k0) v); cbn [obind] in H; try discriminate H.
      injection H as <-. apply lc_seed_set.
    + destruct sk; cbn [obind] in H.
      * destruct (file_str v); cbn [obind] in H; try discriminate H. injection H as <-. reflexivity.
      * apply lookup_seed_name in L. subst name. rewrite bytes_eqb_refl in E. discriminate.
      * destruct (file_str v); cbn [obind] in H; try discriminate H.
        destruct (unwrap_c site_gen (kms_from_str a)); cbn [obind] in H; try discriminate H.
        injection H as <-. reflexivity.
      * destruct (file_str v); cbn [obind] in H; try discriminate H. injection H as <-. reflexivity.
      * injection H as <-. reflexivity.
Qed.

(* the seed the loaded configuration holds is the hex decoding of the LAST seed line of the file *)
Theorem gen_file_seed : forall cores entries f c,
  gen_file_config_new cores (Ok [DHash entries]) f = Ok c ->
  match last_written entries t_seed with
  | Some v => exists s, v = YStr s /\ hex_decode s = Some (lc_seed c)
  | None => lc_seed c = []
  end.
Proof.
  intros cores entries f c H. rewrite gen_file_config_new_model in H. cbn [file_load obind] in H.
  change [] with (lc_seed (lc_default cores)). revert H. generalize (lc_default cores).
  induction entries as [|[ky v] r IH]; intros c0 H; cbn [fold_out] in H.
  - injection H as <-. reflexivity.
  - destruct (file_step c0 (ky, v)) as [c1|e|p] eqn:E1; cbn [obind] in H; try discriminate H.
    specialize (IH c1 H). cbn [last_written].
    destruct (last_written r t_seed) as [v'|]; [exact IH|].
    destruct (file_step_key_is_string _ _ _ E1) as [name Hn]. cbn [fst] in Hn. subst ky.
    pose proof (file_step_seed _ _ _ _ E1) as Hs.
    destruct (bytes_eqb name t_seed).
    + destruct Hs as (s & -> & Hd). exists s. split; [reflexivity|]. rewrite Hd. f_equal. symmetry. exact IH.
    + congruence.
Qed.
