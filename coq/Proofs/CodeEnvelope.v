(* CodeEnvelope.v — EnvelopeEncryption::{decrypt_seed, encrypt_seed} as translated from
   src/kms/envelope.rs on this run, against Model/Envelope.v. AES-256-GCM and the KMS provider are
   parameters; the random DEK and nonce of encrypt_seed are inputs. *)
Require Import RV.Model.Bytes RV.Gen.Tables RV.Model.Tag RV.Model.Message RV.Model.Envelope RV.Model.GenSupport RV.Gen.Code.
Require Import RV.Proofs.BytesFacts.
From Coq Require Import ZArith Lia ZifyN ZifyBool ZifyNat List.
Import ListNotations.
Ltac Zify.zify_post_hook ::= Z.div_mod_to_equations.
Local Open Scope N_scope.

Lemma ke_repeat_len : forall b n, length (repeat_byte b n) = n.
Proof. induction n as [|n IH]; cbn [repeat_byte length]; [reflexivity|rewrite IH; reflexivity]. Qed.

Lemma ke_lenN_repeat : forall b n, lenN (repeat_byte b n) = N.of_nat n.
Proof. intros. unfold lenN. rewrite ke_repeat_len. reflexivity. Qed.

Lemma ke_rd16_lt : forall l, rd16 l < 65536.
Proof.
  intros [|a [|b l]]; cbn [rd16]; try lia.
  pose proof (b2n_lt a). pose proof (b2n_lt b). lia.
Qed.

Theorem gen_decrypt_seed_model : forall open unwrap_dek blob,
  gen_decrypt_seed unwrap_dek open tt blob = decrypt_seed open unwrap_dek blob.
Proof.
  intros open unwrap_dek blob. unfold gen_decrypt_seed, decrypt_seed, parse_blob.
  replace (lenN blob <? 64) with (length blob <? MIN_PAYLOAD_SIZE)%nat by (unfold lenN, MIN_PAYLOAD_SIZE; lia).
  destruct (length blob <? MIN_PAYLOAD_SIZE)%nat eqn:Emin; cbn [obind]; [reflexivity|].
  assert (Hlen : (64 <= length blob)%nat) by (unfold MIN_PAYLOAD_SIZE in Emin; lia).
  cbv zeta. unfold cur_read_u16_k, cur_new. change (cur_rest (blob, 0)) with blob.
  replace (length blob <? 2)%nat with false by lia. cbn [obind fst snd].
  change (cur_rest (blob, 0 + 2)) with (skipn 2 blob). rewrite skipn_length.
  replace (length blob - 2 <? 2)%nat with false by lia. cbn [obind fst snd].
  pose proof (ke_rd16_lt blob) as Hd. pose proof (ke_rd16_lt (skipn 2 blob)) as Hn.
  set (dl := rd16 blob) in *. set (nl := rd16 (skipn 2 blob)) in *.
  replace (negb (nl =? 12) || (lenN blob <? dl))
    with (negb (N.to_nat nl =? NONCE_LEN_BYTES)%nat || (length blob <? N.to_nat dl)%nat)
    by (unfold lenN, NONCE_LEN_BYTES; lia).
  destruct (negb (N.to_nat nl =? NONCE_LEN_BYTES)%nat || (length blob <? N.to_nat dl)%nat) eqn:Echk;
    cbn [obind]; [reflexivity|].
  unfold cur_read_exact_k. change (cur_rest (blob, 0 + 2 + 2)) with (skipn 4 blob). cbn [fst snd].
  rewrite !ke_lenN_repeat, N2Nat.id.
  replace (lenN (skipn 4 blob) <? dl) with (length (skipn 4 blob) <? N.to_nat dl)%nat by (unfold lenN; lia).
  destruct (length (skipn 4 blob) <? N.to_nat dl)%nat eqn:Ed; cbn [obind]; [reflexivity|].
  change (N.of_nat 12) with 12.
  replace (cur_rest (blob, 0 + 2 + 2 + dl)) with (skipn (N.to_nat dl) (skipn 4 blob))
    by (unfold cur_rest; cbn [fst snd]; rewrite skipn_skipn'; f_equal; lia).
  replace (lenN (skipn (N.to_nat dl) (skipn 4 blob)) <? 12)
    with (length (skipn (N.to_nat dl) (skipn 4 blob)) <? NONCE_LEN_BYTES)%nat by (unfold lenN, NONCE_LEN_BYTES; lia).
  destruct (length (skipn (N.to_nat dl) (skipn 4 blob)) <? NONCE_LEN_BYTES)%nat eqn:En; cbn [obind]; [reflexivity|].
  change (N.to_nat 12) with NONCE_LEN_BYTES.
  unfold cur_read_to_end. cbn [fst snd app].
  replace (cur_rest (blob, 0 + 2 + 2 + dl + 12))
    with (skipn NONCE_LEN_BYTES (skipn (N.to_nat dl) (skipn 4 blob)))
    by (unfold cur_rest, NONCE_LEN_BYTES; cbn [fst snd]; rewrite !skipn_skipn'; f_equal; lia).
  destruct (unwrap_dek (firstn (N.to_nat dl) (skipn 4 blob))) as [dek| |]; cbn [obind]; try reflexivity.
  replace (lenN dek =? 32) with (length dek =? DEK_LEN_BYTES)%nat by (unfold lenN, DEK_LEN_BYTES; lia).
  destruct (length dek =? DEK_LEN_BYTES)%nat; cbn [negb obind]; [|reflexivity].
  destruct (open dek _ AD _); reflexivity.
Qed.

Theorem gen_encrypt_seed_model : forall seal wrap_dek dek nonce plaintext, length dek = DEK_LEN_BYTES ->
  gen_encrypt_seed nonce dek wrap_dek seal tt plaintext = encrypt_seed seal wrap_dek dek nonce plaintext.
Proof.
  intros seal wrap_dek dek nonce plaintext Hd. unfold gen_encrypt_seed, encrypt_seed. cbv zeta.
  replace (lenN dek =? 32) with true by (unfold lenN, DEK_LEN_BYTES in *; lia). cbn [obind].
  destruct (wrap_dek dek) as [w| |]; cbn [obind]; try reflexivity.
  unfold lenN. cbn [app]. rewrite <- !app_assoc. reflexivity.
Qed.

(* a DEK of the wrong length (cannot happen with the 32 random bytes of the source) is refused *)
Lemma gen_encrypt_seed_bad_dek : forall seal wrap_dek dek nonce plaintext, length dek <> DEK_LEN_BYTES ->
  gen_encrypt_seed nonce dek wrap_dek seal tt plaintext = Err OperationFailed.
Proof.
  intros seal wrap_dek dek nonce plaintext Hd. unfold gen_encrypt_seed. cbv zeta.
  replace (lenN dek =? 32) with false by (unfold lenN, DEK_LEN_BYTES in *; lia). reflexivity.
Qed.

(* ------------------------------------------------------------------ C14 of the code as written *)
Require Import RV.Spec.EnvelopeGoals RV.Proofs.EnvelopeFacts.

Theorem gen_roundtrip : forall seal open wrap unwrap dek nonce p w,
    length dek = 32%nat -> length nonce = 12%nat -> (32 <= length p)%nat ->
    length (seal dek nonce AD p) = (length p + 16)%nat ->
    open dek nonce AD (seal dek nonce AD p) = Some p ->
    wrap dek = Ok w -> unwrap w = Ok dek -> (N.of_nat (length w) < 65536) ->
    exists blob, gen_encrypt_seed nonce dek wrap seal tt p = Ok blob
                 /\ gen_decrypt_seed unwrap open tt blob = Ok p.
Proof.
  intros seal open wrap unwrap dek nonce p w Hd Hn Hp Hs Ho Hw Hu Hlen.
  destruct (env_roundtrip seal open wrap unwrap dek nonce p w Hd Hn Hp Hs Ho Hw Hu Hlen) as [blob [He Hdec]].
  exists blob. rewrite gen_encrypt_seed_model by exact Hd. rewrite gen_decrypt_seed_model. split; assumption.
Qed.

Theorem gen_decrypt_no_panic : forall open unwrap, (forall w, is_panic (unwrap w) = false) ->
  forall blob, is_panic (gen_decrypt_seed unwrap open tt blob) = false.
Proof. intros open unwrap Hu blob. rewrite gen_decrypt_seed_model. exact (env_no_panic open unwrap Hu blob). Qed.
