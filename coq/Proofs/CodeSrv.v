(* CodeSrv.v — LongTermKey::calc_srv_value as translated from the source on this run *)
Require Import RV.Model.Bytes RV.Gen.Tables RV.Model.Tag RV.Model.Message RV.Model.Merkle RV.Model.Keys
        RV.Model.GenSupport RV.Gen.Code RV.Spec.MerkleGoals.
From Coq Require Import ZArith Lia ZifyN ZifyBool ZifyNat List.
Import ListNotations.
Local Open Scope N_scope.

Lemma cm_slice_prefix : forall s (x : bytes) n, (n <= length x)%nat ->
  slice_n (E:=error) s x 0 (N.of_nat n) = Ok (firstn n x).
Proof.
  intros s x n Hn. unfold slice_n, slice. change (N.to_nat 0) with 0%nat. rewrite Nat2N.id.
  assert ((n <? 0)%nat || (length x <? n)%nat = false) as -> by lia.
  cbn [skipn]. rewrite Nat.sub_0_r. reflexivity.
Qed.

Lemma gen_calc_srv_value_model : forall H, HashLen H -> forall pk,
  gen_calc_srv_value H pk = Ok (calc_srv_value H pk).
Proof.
  intros H HL pk. unfold gen_calc_srv_value, calc_srv_value. cbn [app].
  change 32 with (N.of_nat 32). rewrite cm_slice_prefix by (rewrite HL; lia). reflexivity.
Qed.
