(* CodeLib.v — definitions and lemmas shared by the proofs about the generated code (Proofs/Code*.v).
   Nothing in this file mentions Gen/Code.v: it survives any change of the translated sources. *)
Require Import RV.Model.Bytes RV.Gen.Tables RV.Model.Tag RV.Model.Message RV.Model.Merkle RV.Model.Keys
        RV.Model.Server RV.Model.GenSupport.
Require Import RV.Proofs.TagFacts RV.Proofs.BytesFacts.
From Coq Require Import ZArith Lia ZifyN ZifyBool ZifyNat List.
Import ListNotations.
Local Open Scope N_scope.

Definition omap {A B} (f : A -> B) (x : res A) : res B :=
  match x with Ok a => Ok (f a) | Err e => Err e | Panic s => Panic s end.

(* ---- "Ok value or nothing": panic sites and error values are erased, control flow stays ---- *)
Definition obo {A B} (x : option A) (f : A -> option B) : option B :=
  match x with Some a => f a | None => None end.

Lemma oo_bind : forall A B (x : res A) (f : A -> res B), ok_opt (obind x f) = obo (ok_opt x) (fun a => ok_opt (f a)).
Proof. intros A B [a|e|s] f; reflexivity. Qed.

Lemma oo_unwrap_p : forall A s (x : res A), ok_opt (unwrap_p s x) = ok_opt x.
Proof. intros A s [a|e|p]; reflexivity. Qed.

Lemma oo_unwrap : forall A s (x : res A), ok_opt (unwrap s x) = ok_opt x.
Proof. intros A s [a|e|p]; reflexivity. Qed.

Lemma oo_if : forall A (c : bool) (x y : res A), ok_opt (if c then x else y) = if c then ok_opt x else ok_opt y.
Proof. intros A [|] x y; reflexivity. Qed.

(* destruct the next message-building step that both sides share *)
Ltac chain :=
  repeat (cbn [obind ok_opt unwrap unwrap_p build_unwrap get_unwrap];
          match goal with
          | |- context [add_field ?m ?t ?v] => destruct (add_field m t v) as [?mm|?ee|?ss]
          | |- context [encode ?m] => destruct (encode m) as [?bb|?ee|?ss]
          | |- context [match get_field ?m ?t with _ => _ end] => destruct (get_field m t) as [?xx|]
          end);
  cbn [obind ok_opt unwrap unwrap_p build_unwrap get_unwrap]; try reflexivity.

(* ------------------------------------------------------------------ the two representations *)

Definition unzip (m : msg) : list tag * list bytes := (map fst m, map snd m).

Lemma km_combine_snoc : forall {A B} (a : list A) (b : list B) x y, length a = length b ->
  combine (a ++ [x]) (b ++ [y]) = combine a b ++ [(x, y)].
Proof.
  induction a as [|a0 a IH]; intros [|b0 b] x y Hl; cbn [length] in Hl; try discriminate; [reflexivity|].
  cbn [app combine]. rewrite IH by lia. reflexivity.
Qed.

Lemma km_last_combine : forall (tags : list tag) (values : list bytes), length tags = length values ->
  last_tag (combine tags values) = last_opt tags.
Proof.
  intros tags. induction tags as [|t tags IH] using rev_ind; intros values Hl.
  - reflexivity.
  - destruct values as [|v values _] using rev_ind.
    + rewrite app_length in Hl. cbn in Hl. lia.
    + rewrite !app_length in Hl. cbn [length] in Hl.
      rewrite km_combine_snoc by lia. unfold last_tag, last_opt. rewrite !rev_app_distr. reflexivity.
Qed.

Lemma km_unzip_snoc : forall m t v, unzip (m ++ [(t, v)]) = (fst (unzip m) ++ [t], snd (unzip m) ++ [v]).
Proof. intros. unfold unzip. rewrite !map_app. reflexivity. Qed.

Lemma km_unzip_combine : forall (tags : list tag) (values : list bytes), length tags = length values ->
  unzip (combine tags values) = (tags, values).
Proof.
  intros. unfold unzip. rewrite map_fst_combine, map_snd_combine by lia. reflexivity.
Qed.

Lemma km_combine_length : forall (tags : list tag) (values : list bytes), length tags = length values ->
  length (combine tags values) = length tags.
Proof. intros. rewrite combine_length. lia. Qed.

Lemma ks_ok_opt_some : forall A (x : res A) a, ok_opt x = Some a -> x = Ok a.
Proof. intros A [b| |] a Hx; cbn in Hx; try discriminate. injection Hx as ->. reflexivity. Qed.

(* The body of a translated loop equals the reference body: by computation when the source has today's
   shape; otherwise by splitting on every scrutinee, innermost first (an atom shared by both sides),
   until both sides are the same value. The second route absorbs behaviour-preserving rewrites such as
   a check moved into a private helper (which the translator inlines) or a flag pair turned into a
   tuple. No extensionality axiom is involved: the statement is pointwise. *)
Ltac body_eq :=
  intros;
  first
    [ reflexivity
    | repeat match goal with p : (_ * _)%type |- _ => destruct p end; reflexivity
    | repeat match goal with p : (_ * _)%type |- _ => destruct p end;
      unfold obind;
      repeat (cbv beta iota;
              match goal with
              | |- context [match ?x with _ => _ end] =>
                  lazymatch x with
                  | context [match _ with _ => _ end] => fail
                  | _ => destruct x eqn:?
                  end
              end);
      reflexivity ].
