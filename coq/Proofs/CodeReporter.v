(* CodeReporter.v — the reporter's side of the statistics queue as translated on this run:
   ClientStats::merge (src/stats/mod.rs) and Reporter::receive_client_stats (src/stats/reporter.rs). *)
Require Import RV.Model.Bytes RV.Gen.Tables RV.Model.Tag RV.Model.Message RV.Model.Server RV.Model.Stats
        RV.Model.GenSupport RV.Gen.Code.
Require Import RV.Proofs.CodePerClient.
From Coq Require Import NArith List Lia.
Import ListNotations.
Local Open Scope N_scope.

(* merge on an entry whose own address is the key it is stored under: all nine counters are added *)
Lemma merge_entry_same : forall c o, merge_entry (fst o) c o = cs_merge c (snd o).
Proof.
  intros c o. unfold merge_entry, gen_cs_merge. rewrite N.eqb_refl. cbn [negb]. cbv zeta. reflexivity.
Qed.

(* ... and nothing is added when the record carries another address (it cannot be reached through the
   reporter, which looks the entry up by the record's own address) *)
Lemma merge_entry_other : forall a c o, a <> fst o -> merge_entry a c o = c.
Proof.
  intros a c o Hn. unfold merge_entry, gen_cs_merge.
  replace (a =? fst o) with false by (symmetry; apply N.eqb_neq; exact Hn). cbn [negb].
  destruct c; reflexivity.
Qed.

Lemma merge_snapshot : forall (F : cmap * N -> addr * cstats -> res (cmap * N)) snap m n,
  (forall m0 n0 cl, F (m0, n0) cl =
     Ok (cm_put m0 (fst cl) (merge_entry (fst cl) (cm_get0 m0 (fst cl)) cl), n0 + 1)) ->
  fold_res F snap (m, n) = Ok (fold_left rep_merge_entry snap m, n + lenN snap).
Proof.
  intros F snap. induction snap as [|cl r IH]; intros m n HF; cbn [fold_res fold_left].
  - unfold lenN. cbn [length]. rewrite N.add_0_r. reflexivity.
  - rewrite HF. cbn [obind]. rewrite IH by exact HF. f_equal. f_equal.
    + f_equal. unfold rep_merge_entry. rewrite merge_entry_same.
      apply (cm_put_get0 m (fst cl) (fun c => cs_merge c (snd cl))).
    + unfold lenN. cbn [length]. lia.
Qed.

Lemma drain_loop : forall (B : squeue * cmap * N -> res (squeue * cmap * N * bool)) items cap m n fuel,
  (forall q0 m0 n0, B (q0, m0, n0) =
     match sq_items q0 with
     | [] => Ok ((q0, m0, n0), true)
     | x :: r => Ok ((mksq (sq_cap q0) r, fold_left rep_merge_entry x m0, n0 + lenN x), false)
     end) ->
  (length items < fuel)%nat ->
  exists n', loop_fuel fuel B (mksq cap items, m, n) = Ok (mksq cap [], rep_receive m items, n').
Proof.
  intros B items. induction items as [|x r IH]; intros cap m n fuel HB Hf;
    (destruct fuel as [|fuel]; [cbn [length] in Hf; lia|]); cbn [loop_fuel]; rewrite HB; cbn [sq_items obind].
  - exists n. reflexivity.
  - cbn [sq_cap]. destruct (IH cap (fold_left rep_merge_entry x m) (n + lenN x) fuel HB) as [n' Hn'];
      [cbn [length] in Hf; lia|].
    exists n'. rewrite Hn'. reflexivity.
Qed.

(* one pass of the reporter: the queue is emptied and every record of every queued snapshot is merged
   into the reporter's map, oldest snapshot first — the QDrain step of the queue model *)
Theorem gen_receive_client_stats_model : forall q m,
  gen_receive_client_stats q m = Ok (mksq (sq_cap q) [], rep_receive m (sq_items q)).
Proof.
  intros [cap items] m. unfold gen_receive_client_stats. cbv zeta. cbn [sq_items sq_cap].
  match goal with |- context [loop_fuel _ ?B _] =>
    destruct (drain_loop B items cap m 0 (S (length items))) as [n' Hn'] end.
  - intros q0 m0 n0. unfold sq_pop. destruct (sq_items q0) as [|x r]; [reflexivity|].
    match goal with |- context [fold_res ?F x (m0, n0)] => rewrite (merge_snapshot F x m0 n0) end;
      [reflexivity|intros; reflexivity].
  - lia.
  - rewrite Hn'. cbn [obind]. destruct (0 <? n'); reflexivity.
Qed.

Lemma q_run_drain_is_receive : forall q m lost r,
  q_run q m lost (QDrain :: r)
  = match gen_receive_client_stats q m with
    | Ok (q', m') => q_run q' m' lost r
    | _ => (q, m, lost)
    end.
Proof. intros q m lost r. rewrite gen_receive_client_stats_model. reflexivity. Qed.

(* ------------------------------------------------------------------ the reporter thread's loop *)
Section ReporterLoop.
  Variables (pushed : nat -> list cmap) (flag due : nat -> bool).

  Definition after_pushes (q : squeue) (i : nat) : squeue :=
    fold_left (fun q0 x => fst (sq_force_push q0 x)) (pushed i) q.

  (* pass i: (the workers' pushes since the last pass are on the queue;) keep_running is read; everything
     queued is merged; when the report is due the merged map is handed to report() and cleared; one second
     of sleep *)
  Fixpoint reporter (fuel : nat) (q : squeue) (m : cmap) (i : nat) (reps : list cmap)
    : res (squeue * cmap * nat * list cmap) :=
    match fuel with
    | O => Panic site_fuel
    | S f =>
        if flag i then
          let q1 := after_pushes q i in
          let m1 := rep_receive m (sq_items q1) in
          if due i then reporter f (mksq (sq_cap q1) []) [] (S i) (reps ++ [m1])
          else reporter f (mksq (sq_cap q1) []) m1 (S i) reps
        else Ok (q, m, i, reps)
    end.

  Theorem gen_reporter_loop_model : forall fuel q m i reps,
    gen_reporter_loop pushed flag due fuel q m tt i reps = reporter fuel q m i reps.
  Proof.
    intros fuel q m i reps. unfold gen_reporter_loop.
    assert (H : forall fuel q m reps i,
      obind (while_fuel fuel
               (fun '(_, _, _, i0) => Ok (flag i0))
               (fun '(q0, m0, r0, i0) =>
                  obind (gen_receive_client_stats (fold_left (fun q_p x_p => fst (sq_force_push q_p x_p)) (pushed i0) q0) m0)
                    (fun '(q5, m6) =>
                       obind (if due i0 then Ok (r0 ++ [m6], []) else Ok (r0, m6))
                         (fun '(r10, m11) => Ok (q5, m11, r10, S i0))))
               (q, m, reps, i))
            (fun '(q13, m14, r15, i16) => Ok (q13, m14, i16, r15))
      = reporter fuel q m i reps).
    { clear. induction fuel as [|f IH]; intros q m reps i; cbn [while_fuel reporter obind]; [reflexivity|].
      destruct (flag i); cbn [obind]; [|reflexivity].
      rewrite gen_receive_client_stats_model. cbn [obind]. fold (after_pushes q i).
      destruct (due i); cbn [obind]; apply IH. }
    apply H.
  Qed.

  (* keep_running is read at the top of every pass: cleared before pass i + n (and not before), the loop
     makes exactly n passes — each of which ends with the one-second sleep — and returns *)
  Theorem reporter_stops_at_flag : forall n fuel q m i reps,
    (n < fuel)%nat -> (forall j, (i <= j < i + n)%nat -> flag j = true) -> flag (i + n)%nat = false ->
    exists q' m' reps', reporter fuel q m i reps = Ok (q', m', (i + n)%nat, reps').
  Proof.
    induction n as [|n IH]; intros fuel q m i reps Hf Hon Hoff; (destruct fuel as [|f]; [lia|]); cbn [reporter].
    - rewrite Nat.add_0_r in Hoff. rewrite Hoff. rewrite Nat.add_0_r. eauto.
    - rewrite (Hon i) by lia.
      assert (H2 : forall j, (S i <= j < S i + n)%nat -> flag j = true) by (intros j Hj; apply Hon; lia).
      assert (H3 : flag (S i + n)%nat = false) by (replace (S i + n)%nat with (i + S n)%nat by lia; exact Hoff).
      replace (i + S n)%nat with (S i + n)%nat by lia.
      destruct (due i); apply IH; try assumption; lia.
  Qed.

  (* the merged map is handed to report() and cleared in the same pass, and only then: a pass that does not
     report keeps everything merged so far *)
  Lemma reporter_pass : forall f q m i reps, flag i = true ->
    reporter (S f) q m i reps
    = let q1 := after_pushes q i in
      let m1 := rep_receive m (sq_items q1) in
      if due i then reporter f (mksq (sq_cap q1) []) [] (S i) (reps ++ [m1])
      else reporter f (mksq (sq_cap q1) []) m1 (S i) reps.
  Proof. intros f q m i reps Hfl. cbn [reporter]. rewrite Hfl. reflexivity. Qed.
End ReporterLoop.
