(* Sha512Facts.v — the only fact the generic theorems need about the concrete digest *)
Require Import RV.Model.Bytes RV.Model.Sha512.
From Coq Require Import Lia.

Lemma be_write_length : forall k n acc, length (be_write k n acc) = (k + length acc)%nat.
Proof.
  induction k as [|k IH]; intros n acc; cbn [be_write]; [reflexivity|].
  rewrite IH. cbn [length]. lia.
Qed.

Lemma sha512_length : forall x, length (sha512 x) = 64%nat.
Proof.
  intro x. unfold sha512. rewrite !app_length, !be_write_length. reflexivity.
Qed.
