(* ClientSound.v — C01: soundness of the client's decision procedure (Model/Client.v) against
   the definition of an authentic reply (Spec/ClientGoals.v), and the replay theorem. *)
Require Import RV.Model.Bytes RV.Gen.Tables RV.Model.Tag RV.Model.Message RV.Model.Merkle
        RV.Model.Keys RV.Model.Sign RV.Model.Client.
Require Import RV.Spec.RefCodec RV.Spec.RefMerkle RV.Spec.MerkleGoals RV.Spec.RefVerify
        RV.Spec.CodecGoals RV.Spec.ClientGoals.
Require Import RV.Proofs.BytesFacts RV.Proofs.CodecDecode RV.Proofs.RequestFacts
        RV.Proofs.MerkleModel RV.Proofs.MerkleBinding RV.Proofs.SignFacts RV.Proofs.KeysFacts.
From Coq Require Import ZArith Lia ZifyN ZifyBool ZifyNat.
Ltac Zify.zify_post_hook ::= Z.div_mod_to_equations.
Local Open Scope N_scope.

(* ------------------------------------------------------------------ *)
(* inversion of the outcome monad *)

Lemma cs_obind_ok : forall {E A B} (x : outcome E A) (f : A -> outcome E B) y,
  obind x f = Ok y -> exists a, x = Ok a /\ f a = Ok y.
Proof.
  intros E A B x f y Hx. destruct x as [a|e|s]; cbn [obind] in Hx; try discriminate Hx.
  exists a. split; [reflexivity|exact Hx].
Qed.

Ltac inv_bind Hb a Ha :=
  apply cs_obind_ok in Hb; destruct Hb as (a & Ha & Hb).

Lemma cs_unwrap_ok : forall {A} s (x : res A) a, unwrap s x = Ok a -> x = Ok a.
Proof. intros A s x a Hx. destruct x; cbn [unwrap] in Hx; try discriminate Hx. exact Hx. Qed.

Lemma cs_idx_ok : forall m t b, idx m t = Ok b -> rget m t = Some b.
Proof.
  intros m t b Hx. unfold idx in Hx. rewrite (get_field_rget m t) in Hx.
  destruct (rget m t) as [c|]; [|discriminate Hx]. injection Hx as ->. reflexivity.
Qed.

Lemma cs_read_u64_ok : forall b n, read_u64 b = Ok n -> (8 <=? length b)%nat = true /\ n = rd64 b.
Proof.
  intros b n Hx. unfold read_u64 in Hx. destruct (length b <? 8)%nat eqn:E; [discriminate Hx|].
  injection Hx as <-. split; [lia|reflexivity].
Qed.

Lemma cs_read_u32_ok : forall b n, read_u32 b = Ok n -> (4 <=? length b)%nat = true /\ n = rd32 b.
Proof.
  intros b n Hx. unfold read_u32 in Hx. destruct (length b <? 4)%nat eqn:E; [discriminate Hx|].
  injection Hx as <-. split; [lia|reflexivity].
Qed.

Lemma cs_slice_ok : forall {E} s bs a b (x : bytes), @slice E s bs a b = Ok x ->
  (a <= b)%nat /\ (b <= length bs)%nat /\ x = firstn (b - a) (skipn a bs).
Proof.
  intros E s bs a b x Hx. unfold slice in Hx.
  destruct (b <? a)%nat eqn:E1; [discriminate Hx|].
  destruct (length bs <? b)%nat eqn:E2; [discriminate Hx|]. cbn [orb] in Hx.
  injection Hx as <-. repeat split; lia.
Qed.

(* ------------------------------------------------------------------ *)
(* decoding: the implementation's result is the reference decoder's *)

Lemma cs_decode_ref : forall b m, from_bytes b = Ok m -> (length b <= 4096)%nat -> ref_decode b = Some m.
Proof.
  intros b m Hf Hl. rewrite <- decode_agrees.
  - rewrite Hf. reflexivity.
  - unfold lenN, two32. lia.
Qed.

Lemma cs_rget_in : forall (m : rmsg) t b, rget m t = Some b -> In b (map snd m).
Proof.
  induction m as [|[u c] m IH]; intros t b Hx; cbn [rget] in Hx; [discriminate Hx|].
  cbn [map snd In]. destruct (tag_beq t u).
  - injection Hx as ->. left. reflexivity.
  - right. eapply IH. exact Hx.
Qed.

Lemma cs_in_concat_len : forall (l : list bytes) b, In b l -> (length b <= length (concat l))%nat.
Proof.
  induction l as [|c l IH]; intros b Hin; cbn [In] in Hin; [contradiction|].
  cbn [concat]. rewrite app_length. destruct Hin as [->|Hin]; [lia|].
  specialize (IH b Hin). lia.
Qed.

Lemma cs_value_len : forall bs m t b, from_bytes bs = Ok m -> rget m t = Some b ->
  (length b <= length bs)%nat.
Proof.
  intros bs m t b Hf Hg.
  assert (Hne : m <> []) by (intro Hm; subst m; discriminate Hg).
  pose proof (values_are_payload bs m Hf Hne) as Hv.
  pose proof (cs_in_concat_len _ _ (cs_rget_in _ _ _ Hg)) as Hl.
  rewrite Hv, skipn_length in Hl. lia.
Qed.

(* ------------------------------------------------------------------ *)
(* no Err: every failure is a panic *)

Definition NoErr {A} (x : res A) : Prop := forall e, x <> Err e.

Lemma ne_obind : forall {A B} (x : res A) (f : A -> res B),
  NoErr x -> (forall a, NoErr (f a)) -> NoErr (obind x f).
Proof.
  intros A B x f Hx Hf e. destruct x as [a|e'|s]; cbn [obind].
  - apply Hf.
  - intros _. exact (Hx e' eq_refl).
  - discriminate.
Qed.

Lemma ne_ok : forall {A} (a : A), NoErr (Ok a : res A).
Proof. intros A a e. discriminate. Qed.

Lemma ne_panic : forall {A} s, NoErr (Panic s : res A).
Proof. intros A s e. discriminate. Qed.

Lemma ne_unwrap : forall {A} s (x : res A), NoErr (unwrap s x).
Proof. intros A s x e. destruct x; cbn [unwrap]; discriminate. Qed.

Lemma ne_idx : forall m t, NoErr (idx m t).
Proof. intros m t e. unfold idx. destruct (get_field m t); discriminate. Qed.

Lemma ne_read_u64 : forall b, NoErr (read_u64 b).
Proof. intros b e. unfold read_u64. destruct (length b <? 8)%nat; discriminate. Qed.

Lemma ne_read_u32 : forall b, NoErr (read_u32 b).
Proof. intros b e. unfold read_u32. destruct (length b <? 4)%nat; discriminate. Qed.

Lemma ne_slice : forall s bs a b, NoErr (slice s bs a b : res bytes).
Proof. intros s bs a b e. unfold slice. destruct ((b <? a)%nat || (length bs <? b)%nat); discriminate. Qed.

Ltac ne_step :=
  first [ apply ne_ok | apply ne_panic | apply ne_unwrap | apply ne_idx
        | apply ne_read_u64 | apply ne_read_u32 | apply ne_slice
        | apply ne_obind; [|intros ?]
        | match goal with
          | |- NoErr (if ?c then _ else _) => destruct c
          | |- NoErr (match ?x with _ => _ end) => destruct x
          end ].

(* ------------------------------------------------------------------ *)
(* the Merkle climb is injective in the starting hash, up to a collision *)

Section Climb.
  Variable h : bytes -> bytes.

  Definition HColl : Prop := exists x y : bytes, x <> y /\ h x = h y.

  Lemma cs_climb_inj : forall p x1 x2 i, x1 <> x2 ->
    s_climb h x1 i p = s_climb h x2 i p -> HColl.
  Proof.
    induction p as [|q p IH]; intros x1 x2 i Hne Heq; cbn [s_climb] in Heq.
    - contradiction.
    - destruct (Nat.even i).
      + destruct (bytes_eq_dec (s_node h x1 q) (s_node h x2 q)) as [E|N].
        * exists (x01 :: x1 ++ q), (x01 :: x2 ++ q). split; [|exact E].
          intro Hc. injection Hc as Hc. apply app_inv_tail in Hc. contradiction.
        * eapply IH; [exact N|exact Heq].
      + destruct (bytes_eq_dec (s_node h q x1) (s_node h q x2)) as [E|N].
        * exists (x01 :: q ++ x1), (x01 :: q ++ x2). split; [|exact E].
          intro Hc. injection Hc as Hc. apply app_inv_head in Hc. contradiction.
        * eapply IH; [exact N|exact Heq].
  Qed.

  Lemma cs_recompute_inj : forall d1 d2 i p, d1 <> d2 ->
    s_recompute h d1 i p = s_recompute h d2 i p -> HColl.
  Proof.
    intros d1 d2 i p Hne Heq. unfold s_recompute in Heq.
    destruct (bytes_eq_dec (s_leaf h d1) (s_leaf h d2)) as [E|N].
    - exists (x00 :: d1), (x00 :: d2). split; [|exact E].
      intro Hc. injection Hc as Hc. contradiction.
    - eapply cs_climb_inj; [exact N|exact Heq].
  Qed.
End Climb.

(* ------------------------------------------------------------------ *)
(* the client, step by step *)

Section ClientSound.
  Variable H : bytes -> bytes.
  Variable ed_verify : bytes -> bytes -> bytes -> bool.
  Variable ed_point : bytes -> bool.

  Notation validate_sig := (validate_sig ed_verify ed_point).
  Notation validate_signatures := (validate_signatures ed_verify ed_point).
  Notation handle_response := (handle_response H ed_verify ed_point).
  Notation client_handle := (client_handle H ed_verify ed_point).

  Lemma ne_validate_sig : forall pk sig data, NoErr (validate_sig pk sig data).
  Proof.
    intros pk sig data e. unfold Client.validate_sig.
    destruct (run_verifier ed_verify ed_point pk [data] sig); discriminate.
  Qed.

  Lemma cs_validate_sig_ok : forall pk sig data b, validate_sig pk sig data = Ok b ->
    (length pk =? 32)%nat = true /\ ed_point pk = true /\ (length sig =? 64)%nat = true
    /\ b = ed_verify pk data sig.
  Proof.
    intros pk sig data b Hx. unfold Client.validate_sig in Hx. rewrite verifier_correct in Hx.
    destruct (length pk =? 32)%nat; [|discriminate Hx].
    destruct (ed_point pk); [|discriminate Hx]. cbn [andb] in Hx.
    destruct (length sig =? 64)%nat; [|discriminate Hx].
    cbn [concat] in Hx. rewrite app_nil_r in Hx. injection Hx as <-.
    repeat split; reflexivity.
  Qed.

  (* ---- receive_response ---- *)
  Definition cs_payload (v : version) (dgram : bytes) : option bytes :=
    match v with
    | Google => Some dgram
    | RfcDraft13 => if (12 <=? length dgram)%nat then Some (skipn 12 dgram) else None
    end.

  Lemma cs_unpad : forall (dgram pad : bytes), (12 <= length dgram)%nat ->
    firstn (length dgram - 12) (skipn 12 (dgram ++ pad)) = skipn 12 dgram.
  Proof.
    intros dgram pad Hl. rewrite skipn_app.
    replace (12 - length dgram)%nat with 0%nat by lia. rewrite skipn_O.
    rewrite firstn_app, skipn_length, Nat.sub_diag, firstn_O, app_nil_r.
    apply firstn_all2. rewrite skipn_length. lia.
  Qed.

  Lemma cs_receive_ok : forall v dgram resp, (length dgram <= 4096)%nat ->
    receive_response v dgram = Ok resp ->
    exists payload, cs_payload v dgram = Some payload
      /\ payload = match v with Google => dgram | RfcDraft13 => skipn 12 dgram end
      /\ from_bytes payload = Ok resp /\ (length payload <= 4096)%nat.
  Proof.
    intros v dgram resp Hl Hx. unfold receive_response in Hx. destruct v.
    - apply cs_unwrap_ok in Hx. exists dgram. cbn [cs_payload]. auto.
    - inv_bind Hx u Hu. inv_bind Hx payload Hs. apply cs_unwrap_ok in Hx.
      apply cs_slice_ok in Hs. destruct Hs as (H12 & _ & Hp).
      rewrite cs_unpad in Hp by exact H12. subst payload.
      exists (skipn 12 dgram). cbn [cs_payload].
      replace (12 <=? length dgram)%nat with true by lia.
      repeat split; [exact Hx|]. rewrite skipn_length. lia.
  Qed.

  Lemma ne_receive : forall v dgram, NoErr (receive_response v dgram).
  Proof. intros v dgram. unfold receive_response. destruct v; repeat ne_step. Qed.

  (* ---- validate_merkle ---- *)
  Lemma cs_hashv_vhash : forall v, hashv H v = vhash H v.
  Proof. intro v. destruct v; reflexivity. Qed.

  Lemma cs_node_len_width : forall v, node_len v = spec_width v.
  Proof. intro v. destruct v; reflexivity. Qed.

  Lemma cs_merkle_ok : forall v nonce request resp srep index, HashLen H ->
    validate_merkle H v nonce request resp srep = Ok index ->
    exists indx path root,
      rget resp INDX = Some indx /\ (4 <=? length indx)%nat = true /\ index = rd32 indx
      /\ rget resp PATH = Some path /\ rget srep ROOT = Some root
      /\ (Nat.modulo (length path) (spec_width v) =? 0)%nat = true
      /\ bytes_eqb (s_recompute (vhash H v) (spec_leaf v request nonce)
                                (N.to_nat (rd32 indx)) (chunks (spec_width v) path)) root = true.
  Proof.
    intros v nonce request resp srep index HL Hx. unfold validate_merkle in Hx.
    inv_bind Hx indx Hindx. inv_bind Hx ix Hix. inv_bind Hx path Hpath.
    inv_bind Hx hash Hhash. inv_bind Hx root Hroot.
    apply cs_idx_ok in Hindx, Hpath, Hroot. apply cs_read_u32_ok in Hix. destruct Hix as [Hil ->].
    destruct (bytes_eqb hash root) eqn:Heq; [|discriminate Hx]. injection Hx as <-.
    exists indx, path, root.
    rewrite <- (N2Nat.id (rd32 indx)) in Hhash. rewrite root_from_paths_spec in Hhash by exact HL.
    rewrite cs_hashv_vhash, cs_node_len_width in Hhash.
    destruct (length path mod spec_width v =? 0)%nat eqn:Hmod; [|discriminate Hhash].
    injection Hhash as <-.
    repeat split; try assumption; reflexivity.
  Qed.

  Lemma ne_merkle : forall v nonce request resp srep, NoErr (validate_merkle H v nonce request resp srep).
  Proof. intros. unfold validate_merkle. repeat ne_step. Qed.

  (* ---- validate_midpoint ---- *)
  Lemma cs_midpoint_ok : forall dele midpoint u, validate_midpoint dele midpoint = Ok u ->
    exists mint maxt,
      rget dele MINT = Some mint /\ (8 <=? length mint)%nat = true
      /\ rget dele MAXT = Some maxt /\ (8 <=? length maxt)%nat = true
      /\ (rd64 mint <=? midpoint) = true /\ (midpoint <=? rd64 maxt) = true.
  Proof.
    intros dele midpoint u Hx. unfold validate_midpoint in Hx.
    inv_bind Hx mint Hmint. inv_bind Hx mi Hmi. inv_bind Hx maxt Hmaxt. inv_bind Hx ma Hma.
    apply cs_idx_ok in Hmint, Hmaxt. apply cs_read_u64_ok in Hmi, Hma.
    destruct Hmi as [Hl1 ->]. destruct Hma as [Hl2 ->].
    destruct (midpoint <? rd64 mint) eqn:E1; [discriminate Hx|].
    destruct (rd64 maxt <? midpoint) eqn:E2; [discriminate Hx|].
    exists mint, maxt. repeat split; try assumption; lia.
  Qed.

  Lemma ne_midpoint : forall dele midpoint, NoErr (validate_midpoint dele midpoint).
  Proof. intros. unfold validate_midpoint. repeat ne_step. Qed.

  (* ---- validate_signatures ---- *)
  Lemma cs_signatures_ok : forall v pk resp cert dele u,
    validate_signatures v pk resp cert dele = Ok u ->
    exists csig dele_b pubk sig srep_b,
      rget cert SIG = Some csig /\ rget cert DELE = Some dele_b
      /\ (length pk =? 32)%nat = true /\ ed_point pk = true /\ (length csig =? 64)%nat = true
      /\ ed_verify pk (spec_dele_ctx v ++ dele_b) csig = true
      /\ rget dele PUBK = Some pubk /\ rget resp SIG = Some sig /\ rget resp SREP = Some srep_b
      /\ (length pubk =? 32)%nat = true /\ ed_point pubk = true /\ (length sig =? 64)%nat = true
      /\ ed_verify pubk (ctx_srep ++ srep_b) sig = true.
  Proof.
    intros v pk resp cert dele u Hx. unfold Client.validate_signatures in Hx.
    inv_bind Hx csig Hcsig. inv_bind Hx dele_b Hdele. inv_bind Hx ok1 Hok1.
    destruct ok1; cbn [negb] in Hx; [|discriminate Hx].
    inv_bind Hx pubk Hpubk. inv_bind Hx sg Hsig. inv_bind Hx srep_b Hsrep. inv_bind Hx ok2 Hok2.
    destruct ok2; cbn [negb] in Hx; [|discriminate Hx].
    apply cs_idx_ok in Hcsig, Hdele, Hpubk, Hsig, Hsrep.
    apply cs_validate_sig_ok in Hok1, Hok2.
    destruct Hok1 as (A1 & A2 & A3 & A4). destruct Hok2 as (B1 & B2 & B3 & B4).
    rewrite (proj1 contexts_match_spec) in A4. rewrite (proj2 contexts_match_spec) in B4.
    exists csig, dele_b, pubk, sg, srep_b. repeat split; try assumption; symmetry; assumption.
  Qed.

  Lemma ne_signatures : forall v pk resp cert dele, NoErr (validate_signatures v pk resp cert dele).
  Proof.
    intros. unfold Client.validate_signatures.
    repeat first [ apply ne_validate_sig | ne_step ].
  Qed.

  (* ---- to_time ---- *)
  Lemma cs_to_time_ok : forall v midpoint s ns, to_time v midpoint = Ok (s, ns) ->
    (s, ns) = time_of v midpoint.
  Proof.
    intros v midpoint s ns Hx. unfold to_time in Hx. destruct v; cbv beta iota zeta in Hx.
    - destruct (TS_MAX <? midpoint / 1000000); [discriminate Hx|]. injection Hx as <- <-.
      unfold time_of. f_equal. f_equal. lia.
    - destruct (TS_MAX <? midpoint); [discriminate Hx|]. injection Hx as <- <-. reflexivity.
  Qed.

  Lemma ne_to_time : forall v midpoint, NoErr (to_time v midpoint).
  Proof. intros v midpoint. unfold to_time. destruct v; cbv beta iota zeta; repeat ne_step. Qed.

  (* ---- handle_response ---- *)
  Lemma ne_handle : forall v pko nonce request resp, NoErr (handle_response v pko nonce request resp).
  Proof.
    intros. unfold Client.handle_response.
    repeat first [ apply ne_merkle | apply ne_midpoint | apply ne_signatures | ne_step ].
  Qed.

  (* ------------------------------------------------------------------ *)
  (* the client never returns an error value *)
  Lemma client_ok_or_panic_sec : goal_client_ok_or_panic H ed_verify ed_point.
  Proof.
    intros v pko nonce request dgram. change (NoErr (client_handle v pko nonce request dgram)).
    unfold Client.client_handle.
    repeat first [ apply ne_receive | apply ne_handle | apply ne_to_time | ne_step ].
  Qed.

  (* ------------------------------------------------------------------ *)
  (* without a pinned key nothing is reported as verified *)
  Lemma client_unverified_sec : goal_client_unverified H ed_verify ed_point.
  Proof.
    intros v nonce request dgram out Hx. unfold Client.client_handle in Hx.
    inv_bind Hx resp Hresp. inv_bind Hx p Hp. inv_bind Hx sn Ht. destruct sn as [s ns].
    injection Hx as <-. cbn [o_verified].
    unfold Client.handle_response in Hp.
    inv_bind Hp a1 X1. inv_bind Hp a2 X2. inv_bind Hp a3 X3. inv_bind Hp a4 X4.
    inv_bind Hp a5 X5. inv_bind Hp a6 X6. inv_bind Hp a7 X7. inv_bind Hp a8 X8.
    inv_bind Hp a9 X9. inv_bind Hp a10 X10. inv_bind Hp a11 X11. inv_bind Hp a12 X12.
    inv_bind Hp a13 X13. injection X13 as <-. injection Hp as <-. reflexivity.
  Qed.

  (* ------------------------------------------------------------------ *)
  (* soundness *)
  Lemma client_sound_sec : goal_client_sound H ed_verify ed_point.
  Proof.
    intros HL v pk nonce request dgram out Hlen Hx. unfold Client.client_handle in Hx.
    inv_bind Hx resp Hresp. inv_bind Hx p Hp. inv_bind Hx sn Ht. destruct sn as [s ns].
    injection Hx as <-. cbn [o_verified o_secs o_nsecs].
    apply cs_to_time_ok in Ht.
    destruct (cs_receive_ok _ _ _ Hlen Hresp) as (payload & Hpay & Hpay' & Hdec & Hpl).
    unfold Client.handle_response in Hp.
    inv_bind Hp srep_b Hsrep. inv_bind Hp srep Hsm. inv_bind Hp cert_b Hcert. inv_bind Hp cert Hcm.
    inv_bind Hp dele_b Hdele. inv_bind Hp dele Hdm. inv_bind Hp midp_b Hmidp. inv_bind Hp midpoint Hmp.
    inv_bind Hp radi_b Hradi. inv_bind Hp radius Hrd. inv_bind Hp index Hmk.
    inv_bind Hp u Hwin. inv_bind Hp verified Hsig. inv_bind Hsig u' Hsigs.
    injection Hsig as <-. injection Hp as <-. cbn [p_verified p_midpoint] in *.
    apply cs_idx_ok in Hsrep, Hcert, Hdele, Hmidp, Hradi.
    apply cs_unwrap_ok in Hsm, Hcm, Hdm.
    apply cs_read_u64_ok in Hmp. destruct Hmp as [Hmpl ->].
    (* sizes of the nested values, then the reference decoder's view *)
    pose proof (cs_value_len _ _ _ _ Hdec Hsrep) as Ls.
    pose proof (cs_value_len _ _ _ _ Hdec Hcert) as Lc.
    pose proof (cs_value_len _ _ _ _ Hcm Hdele) as Ld.
    pose proof (cs_decode_ref _ _ Hdec Hpl) as Rm.
    pose proof (cs_decode_ref _ _ Hsm ltac:(lia)) as Rs.
    pose proof (cs_decode_ref _ _ Hcm ltac:(lia)) as Rc.
    pose proof (cs_decode_ref _ _ Hdm ltac:(lia)) as Rd.
    destruct (cs_merkle_ok _ _ _ _ _ _ HL Hmk) as
      (indx & path & root & Gindx & Lindx & _ & Gpath & Groot & Hmod & Hroot).
    destruct (cs_midpoint_ok _ _ _ Hwin) as (mint & maxt & Gmint & Lmint & Gmaxt & Lmaxt & Hlo & Hhi).
    destruct (cs_signatures_ok _ _ _ _ _ _ Hsigs) as
      (csig & dele_b' & pubk & sg & srep_b' & Gcsig & Gdele' & S1 & S2 & S3 & S4
       & Gpubk & Gsig & Gsrep' & S5 & S6 & S7 & S8).
    rewrite Hdele in Gdele'. injection Gdele' as <-.
    rewrite Hsrep in Gsrep'. injection Gsrep' as <-.
    split; [|split; [reflexivity|]].
    - unfold authentic. fold (cs_payload v dgram). rewrite Hpay. cbv zeta.
      rewrite Rm, Gsig, Gpath, Hsrep, Hcert, Gindx. cbn [all_some5].
      rewrite Rc, Rs, Gcsig, Hdele, Rd, Gpubk, Gmint, Gmaxt, Hmidp, Groot. cbn [all_some5].
      rewrite Lmint, Lmaxt, Lindx, Hmpl, S1, S2, S3, S4, S5, S6, S7, S8, Hlo, Hhi, Hmod, Hroot.
      reflexivity.
    - exists (rd64 midp_b). split; [|exact Ht].
      unfold signed_midpoint. rewrite <- Hpay', Rm, Hsrep, Rs, Hmidp. reflexivity.
  Qed.

  (* ------------------------------------------------------------------ *)
  (* replay *)
  Lemma no_replay_sec : goal_no_replay H ed_verify ed_point.
  Proof.
    intros HL v pk req1 nonce1 req2 nonce2 reply A1 A2 Hne.
    unfold authentic in A1, A2. fold (cs_payload v reply) in A1, A2. cbv zeta in A1, A2.
    destruct (cs_payload v reply) as [payload|]; [|discriminate A1].
    destruct (ref_decode payload) as [m|]; [|discriminate A1].
    destruct (rget m SIG) as [sg|]; [|discriminate A1].
    destruct (rget m PATH) as [path|]; [|discriminate A1].
    destruct (rget m SREP) as [srep|]; [|discriminate A1].
    destruct (rget m CERT) as [cert|]; [|discriminate A1].
    destruct (rget m INDX) as [indx|]; [|discriminate A1].
    cbn [all_some5] in A1, A2.
    destruct (ref_decode cert) as [cm|]; [|discriminate A1].
    destruct (ref_decode srep) as [sm|]; [|discriminate A1].
    destruct (rget cm SIG) as [csig|]; [|discriminate A1].
    destruct (rget cm DELE) as [dele|]; [|discriminate A1].
    destruct (ref_decode dele) as [dm|]; [|discriminate A1].
    destruct (rget dm PUBK) as [pubk|]; [|discriminate A1].
    destruct (rget dm MINT) as [mint|]; [|discriminate A1].
    destruct (rget dm MAXT) as [maxt|]; [|discriminate A1].
    destruct (rget sm MIDP) as [midp|]; [|discriminate A1].
    destruct (rget sm ROOT) as [root|]; [|discriminate A1].
    cbn [all_some5] in A1, A2.
    apply andb_true_iff in A1, A2. destruct A1 as [_ A1]. destruct A2 as [_ A2].
    apply bytes_eqb_eq in A1, A2. rewrite <- A2 in A1.
    left. exact (cs_recompute_inj _ _ _ _ _ Hne A1).
  Qed.
End ClientSound.

(* ------------------------------------------------------------------ *)
(* the goals of Spec/ClientGoals.v *)

Lemma client_unverified : forall H ed_verify ed_point, goal_client_unverified H ed_verify ed_point.
Proof. exact client_unverified_sec. Qed.
Print Assumptions client_unverified.

Lemma client_ok_or_panic : forall H ed_verify ed_point, goal_client_ok_or_panic H ed_verify ed_point.
Proof. exact client_ok_or_panic_sec. Qed.
Print Assumptions client_ok_or_panic.

Lemma client_sound : forall H ed_verify ed_point, goal_client_sound H ed_verify ed_point.
Proof. exact client_sound_sec. Qed.
Print Assumptions client_sound.

Lemma no_replay : forall H ed_verify ed_point, goal_no_replay H ed_verify ed_point.
Proof. exact no_replay_sec. Qed.
Print Assumptions no_replay.
