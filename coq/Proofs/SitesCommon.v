(* SitesCommon.v — equality on scanned sites (no check of today's scan in this file) *)
From Coq Require Import List String Bool.
Require Import RV.Gen.Sites RV.Model.SiteMap.
Import ListNotations.

Definition site_eqb (a b : site) : bool :=
  let '(a1, a2, a3, a4) := a in
  let '(b1, b2, b3, b4) := b in
  String.eqb a1 b1 && String.eqb a2 b2 && String.eqb a3 b3 && String.eqb a4 b4.

Definition covered (known : list (site * string)) (s : site) : bool :=
  existsb (fun k => site_eqb s (fst k)) known.

Lemma site_eqb_eq : forall a b, site_eqb a b = true -> a = b.
Proof.
  intros [[[a1 a2] a3] a4] [[[b1 b2] b3] b4] H. unfold site_eqb in H.
  apply andb_true_iff in H. destruct H as [H H4].
  apply andb_true_iff in H. destruct H as [H H3].
  apply andb_true_iff in H. destruct H as [H1 H2].
  apply String.eqb_eq in H1, H2, H3, H4. subst. reflexivity.
Qed.

