(* CodeMsgDisp.v — RtMessage::to_string as translated from src/message.rs on this run *)
Require Import RV.Model.Bytes RV.Gen.Tables RV.Model.Tag RV.Model.Message RV.Model.GenSupport RV.Gen.Code.
Require Import RV.Proofs.TagFacts RV.Proofs.BytesFacts RV.Proofs.CodeLib.
From Coq Require Import ZArith Lia ZifyN ZifyBool ZifyNat List.
Import ListNotations.
Ltac Zify.zify_post_hook ::= Z.div_mod_to_equations.
Local Open Scope N_scope.
Require Import RV.Proofs.CodecEncode.

(* ------------------------------------------------------------------ to_string (Display) *)

Lemma km_repeat_space : forall b n, repeat_bytes_nat [b] n = repeat_byte b n.
Proof. induction n as [|n IH]; [reflexivity|]. cbn [repeat_bytes_nat repeat_byte app]. rewrite IH. reflexivity. Qed.

Lemma gen_to_string_model : forall fuel tags values indent, length tags = length values -> 1 <= indent ->
  gen_to_string fuel tags values indent = to_string_f fuel (N.to_nat indent) (combine tags values).
Proof.
  induction fuel as [|f IH]; intros tags values indent Hl Hi; [reflexivity|].
  cbn [gen_to_string to_string_f].
  replace (0 <? indent) with true by lia. replace (N.to_nat indent =? 0)%nat with false by lia.
  unfold sub_chk. replace (indent <? 1) with false by lia. cbn [obind]. cbv zeta.
  unfold repeat_bytes, spaces. rewrite !km_repeat_space.
  replace (N.to_nat (2 * (indent - 1))) with (2 * (N.to_nat indent - 1))%nat by lia.
  replace (N.to_nat (2 * indent)) with (2 * N.to_nat indent)%nat by lia.
  set (m := combine tags values).
  replace (indent <? 8) with (N.to_nat indent <? MAX_DISPLAY_DEPTH)%nat by (unfold MAX_DISPLAY_DEPTH; lia).
  match goal with |- obind (fold_res ?F m ?a) ?K = obind (?fields m) ?K' =>
    assert (Hfold : forall l acc, fold_res F l acc = obind (fields l) (fun b => Ok (acc ++ b)))
  end.
  { induction l as [|[t v] l IHl]; intros acc.
    - cbn [fold_res obind]. rewrite app_nil_r. reflexivity.
    - cbn [fold_res].
      destruct (tag_nested t && (N.to_nat indent <? MAX_DISPLAY_DEPTH)%nat); cbn [obind].
      + destruct (ok_opt (from_bytes v)) as [nm|]; cbn [obind].
        * rewrite IH by (rewrite ?map_length; lia || reflexivity).
          rewrite RV.Proofs.EncFacts.enc_combine_fst_snd.
          replace (N.to_nat (indent + 1)) with (S (N.to_nat indent)) by lia.
          destruct (to_string_f f (S (N.to_nat indent)) nm) as [s| |]; cbn [obind]; try reflexivity.
          rewrite IHl. destruct (_ l) as [b| |]; cbn [obind]; try reflexivity.
          unfold str_eq. rewrite <- !app_assoc. reflexivity.
        * rewrite IHl. destruct (_ l) as [b| |]; cbn [obind]; try reflexivity.
          unfold str_eq. rewrite <- !app_assoc. reflexivity.
      + rewrite IHl. destruct (_ l) as [b| |]; cbn [obind]; try reflexivity.
        unfold str_eq. rewrite <- !app_assoc. reflexivity. }
  rewrite Hfold. match goal with |- obind (obind (?fields m) _) _ = _ => destruct (fields m) as [b| |] end;
    cbn [obind]; try reflexivity.
  unfold str_RtMessage, str_open, str_close, lenN. subst m. rewrite km_combine_length by exact Hl.
  rewrite <- !app_assoc. reflexivity.
Qed.

(* Display: to_string(1) with the model's 9 levels of fuel *)
Lemma gen_display_model : forall tags values, length tags = length values ->
  gen_to_string (S MAX_DISPLAY_DEPTH) tags values 1 = to_string (combine tags values).
Proof. intros. unfold to_string. rewrite gen_to_string_model by (assumption || lia). reflexivity. Qed.

Lemma gen_display_total : forall tags values, length tags = length values ->
  exists s, gen_to_string (S MAX_DISPLAY_DEPTH) tags values 1 = Ok s.
Proof. intros tags values Hl. rewrite gen_display_model by exact Hl. apply display_total. Qed.
