(* CodeRecorders.v — the remaining small operations of the two statistics recorders as translated on this run
   (constructors, clear, the per-client views): they are what Model/Stats.v and the table entries of
   Server::send_client_stats (`clear/0 => []`, "the aggregated recorder iterates over nothing") take them
   to be. *)
Require Import RV.Model.Bytes RV.Gen.Tables RV.Model.Tag RV.Model.Message RV.Model.Server RV.Model.Stats
        RV.Model.GenSupport RV.Gen.Code.
From Coq Require Import NArith List.
Import ListNotations.
Local Open Scope N_scope.

(* PerClientStats::new: no clients, no overflows, the documented limit; PerClientStats::clear: forgets clients
   and overflows, keeps the limit (pc_clear) *)
Theorem gen_pc_new_clear_model :
  gen_pc_new = Ok ([], 0, MAX_CLIENTS)
  /\ (forall st, gen_pc_clear (pc_clients st) (pc_overflows st)
                 = Ok (pc_clients (pc_clear st), pc_overflows (pc_clear st))).
Proof. split; [reflexivity | intros st; reflexivity]. Qed.

(* the views: the overflow counter, one client's record, the whole map *)
Theorem gen_pc_views_model : forall st a,
  gen_pc_num_overflows (pc_overflows st) = Ok (pc_overflows st)
  /\ gen_pc_stats_for_client (pc_clients st) a = Ok (cm_get (pc_clients st) a)
  /\ gen_pc_iter (pc_clients st) = Ok (pc_clients st).
Proof. intros. repeat split; reflexivity. Qed.

(* what a publication tick relies on: once cleared, the recorder hands the next tick nothing until a new event
   arrives, and reports zero everywhere *)
Theorem gen_pc_cleared_is_empty : forall clients ov,
  obind (gen_pc_clear clients ov) (fun s => gen_pc_iter (fst s)) = Ok []
  /\ obind (gen_pc_clear clients ov) (fun s => gen_pc_total_unique_clients (fst s)) = Ok 0
  /\ obind (gen_pc_clear clients ov) (fun s => gen_pc_total_valid_requests (fst s)) = Ok 0
  /\ obind (gen_pc_clear clients ov) (fun s => gen_pc_num_overflows (snd s)) = Ok 0.
Proof. intros. repeat split; reflexivity. Qed.

(* AggregatedStats: new and clear are the all-zero counters; its per-client views are empty for every address
   and every state (iter walks the map that new creates empty and that no method touches) *)
Theorem gen_agg_new_clear_model :
  gen_agg_new = Ok (0, 0, 0, 0, 0, 0, 0, 0, 0, [])
  /\ (forall a1 a2 a3 a4 a5 a6 a7 a8 a9,
        gen_agg_clear a1 a2 a3 a4 a5 a6 a7 a8 a9 = Ok (0, 0, 0, 0, 0, 0, 0, 0, 0)).
Proof. split; [reflexivity | intros; reflexivity]. Qed.

Theorem gen_agg_views_model : forall a,
  gen_agg_total_unique_clients = Ok 0
  /\ gen_agg_stats_for_client a = Ok None
  /\ obind gen_agg_new (fun s => gen_agg_iter (snd s)) = Ok [].
Proof. intros. repeat split; reflexivity. Qed.
