(* CodeRequest.v — src/request.rs as translated from the source on this run, against Model/Request.v *)
Require Import RV.Model.Bytes RV.Gen.Tables RV.Model.Tag RV.Model.Message RV.Model.GenSupport RV.Gen.Code.
From Coq Require Import ZArith Bool Lia.
Require Import RV.Model.Request.
From Coq Require Import ZifyN ZifyBool ZifyNat List.
Import ListNotations.
Local Open Scope N_scope.

Lemma cf_slice_prefix : forall s (d rest : bytes),
  slice_n (E:=error) s (d ++ rest) 0 (lenN d) = Ok d.
Proof.
  intros s d rest. unfold slice_n, slice, lenN. rewrite Nat2N.id. change (N.to_nat 0) with 0%nat.
  rewrite app_length.
  assert ((length d <? 0)%nat || (length d + length rest <? length d)%nat = false) as -> by lia.
  cbn [skipn]. rewrite Nat.sub_0_r, firstn_app, Nat.sub_diag, firstn_all. cbn [firstn]. rewrite app_nil_r. reflexivity.
Qed.

Lemma cf_slice_first8 : forall s (d rest : bytes), (8 <= length d)%nat ->
  slice_n (E:=error) s (d ++ rest) 0 8 = Ok (firstn 8 d).
Proof.
  intros s d rest Hd. unfold slice_n, slice. change (N.to_nat 0) with 0%nat. change (N.to_nat 8) with 8%nat.
  rewrite app_length.
  assert ((8 <? 0)%nat || (length d + length rest <? 8)%nat = false) as -> by lia.
  cbn [skipn]. change (8 - 0)%nat with 8%nat. rewrite firstn_app.
  replace (8 - length d)%nat with 0%nat by lia. cbn [firstn]. rewrite app_nil_r. reflexivity.
Qed.

Lemma cf_slice_tail : forall s (d : bytes), (12 <= length d)%nat ->
  slice_n (E:=error) s d 12 (lenN d) = Ok (skipn 12 d).
Proof.
  intros s d Hd. unfold slice_n, slice, lenN. rewrite Nat2N.id. change (N.to_nat 12) with 12%nat.
  assert ((length d <? 12)%nat || (length d <? length d)%nat = false) as -> by lia.
  f_equal. apply firstn_all2. rewrite skipn_length. lia.
Qed.

Lemma cf_len_eqb : forall (x : bytes) n, (lenN x =? N.of_nat n) = (length x =? n)%nat.
Proof. intros x n. unfold lenN. destruct (Nat.eqb_spec (length x) n); lia. Qed.

(* the nested loops are the existsb of the model *)
Lemma cf_inner_loop : forall c,
  loop_ret [RfcDraft13] (fun v => if bytes_eqb (ver_wire v) c then Some (Ok (E:=error) (Some v)) else None)
  = if bytes_eqb (ver_wire RfcDraft13) c then Some (Ok (Some RfcDraft13)) else None.
Proof. intro c. cbn [loop_ret]. destruct (bytes_eqb (ver_wire RfcDraft13) c); reflexivity. Qed.

Lemma cf_outer_loop : forall (l : list bytes),
  loop_ret l (fun c =>
     match loop_ret [RfcDraft13] (fun v => if bytes_eqb (ver_wire v) c then Some (Ok (E:=error) (Some v)) else None) with
     | Some r => Some r | None => None end)
  = if existsb (fun c => bytes_eqb (ver_wire RfcDraft13) c) l then Some (Ok (Some RfcDraft13)) else None.
Proof.
  induction l as [|c r IH]; [reflexivity|].
  cbn [loop_ret existsb] in *.
  destruct (bytes_eqb (ver_wire RfcDraft13) c); cbn [orb]; [reflexivity|exact IH].
Qed.

Lemma gen_get_supported_version_model : forall m,
  gen_get_supported_version m = Ok (get_supported_version m).
Proof.
  intro m. unfold gen_get_supported_version, get_supported_version.
  destruct (get_field m VER) as [tb|]; [|reflexivity].
  change (N.to_nat 4) with 4%nat. unfold ITERATION_LIMIT.
  rewrite cf_outer_loop.
  destruct (existsb (fun c => bytes_eqb (ver_wire RfcDraft13) c) (firstn 4 (chunks 4 tb))); reflexivity.
Qed.

Lemma gen_classic_model : forall d,
  gen_nonce_from_classic_request d = nonce_from_classic_request d.
Proof.
  intro d. unfold gen_nonce_from_classic_request, nonce_from_classic_request.
  destruct (from_bytes d) as [m|e|s]; cbn [obind]; try reflexivity.
  destruct (get_field m NONC) as [n|]; [|reflexivity].
  change 64 with (N.of_nat 64). rewrite cf_len_eqb. unfold CLASSIC_NONCE_LENGTH. reflexivity.
Qed.

Lemma gen_rfc_model : forall d srv, (12 <= length d)%nat ->
  gen_nonce_from_rfc_request d srv = nonce_from_rfc_request d srv.
Proof.
  intros d srv Hd. unfold gen_nonce_from_rfc_request, nonce_from_rfc_request.
  change (slice_n site_gen d 8 12) with (slice (E:=error) site_gen d 8 12).
  unfold slice. assert ((12 <? 8)%nat || (length d <? 12)%nat = false) as -> by lia. cbn [obind].
  set (lenw := firstn (12 - 8) (skipn 8 d)).
  assert (Hl : length lenw = 4%nat).
  { unfold lenw. rewrite firstn_length, skipn_length. lia. }
  unfold read_u32_le. assert ((length lenw <? 4)%nat = false) as -> by lia. cbn [obind].
  rewrite firstn_all2 by lia.
  unfold sub_chk. assert ((lenN d <? 12) = false) as -> by (unfold lenN; lia). cbn [obind].
  replace (lenN d - 12) with (N.of_nat (length d - 12)) by (unfold lenN; lia).
  destruct (negb (rd32 lenw =? as_u32 (N.of_nat (length d - 12)))); cbn [obind]; [reflexivity|].
  rewrite cf_slice_tail by exact Hd. cbn [obind].
  destruct (from_bytes (skipn 12 d)) as [m|e|s]; cbn [obind]; try reflexivity.
  rewrite gen_get_supported_version_model. cbn [obind].
  destruct (get_supported_version m) as [v|]; cbn [obind]; [|reflexivity].
  destruct (get_field m SRV) as [rs|]; cbn [obind].
  - destruct (negb (bytes_eqb rs srv)); cbn [obind]; [reflexivity|].
    destruct (get_field m NONC) as [n|]; [|reflexivity].
    change 32 with (N.of_nat 32). rewrite cf_len_eqb. unfold RFC_NONCE_LENGTH.
    destruct (length n =? 32)%nat; reflexivity.
  - destruct (get_field m NONC) as [n|]; [|reflexivity].
    change 32 with (N.of_nat 32). rewrite cf_len_eqb. unfold RFC_NONCE_LENGTH.
    destruct (length n =? 32)%nat; reflexivity.
Qed.

(* nonce_from_request as translated from the source IS the modelled classifier, whatever stale
   bytes follow the datagram in the receive buffer *)
Lemma gen_nonce_from_request_model : forall srv d rest,
  gen_nonce_from_request (d ++ rest) (lenN d) srv = classify srv d.
Proof.
  intros srv d rest. unfold gen_nonce_from_request, classify.
  destruct (lenN d <? MIN_REQUEST_LENGTH) eqn:E1; cbn [obind]; [reflexivity|].
  destruct (MAX_REQUEST_LENGTH <? lenN d) eqn:E2; cbn [obind]; [reflexivity|].
  assert (Hd : (1024 <= length d)%nat) by (unfold lenN, MIN_REQUEST_LENGTH in E1; lia).
  unfold gen_is_rfc_request. rewrite cf_slice_first8 by lia. cbn [obind]. unfold is_rfc_request.
  rewrite cf_slice_prefix. cbn [obind].
  destruct (bytes_eqb (firstn 8 d) REQUEST_FRAMING_BYTES).
  - apply gen_rfc_model. lia.
  - apply gen_classic_model.
Qed.
