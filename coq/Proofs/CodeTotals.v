(* CodeTotals.v — the totals the ServerStats trait reports, as translated on this run from
   src/stats/per_client.rs (sums over the client map) and src/stats/aggregated.rs (the counters), against
   Model/Stats.v pc_total / cs_get: what "both recorders report identical totals" is stated about. *)
Require Import RV.Model.Bytes RV.Gen.Tables RV.Model.Tag RV.Model.Message RV.Model.Server RV.Model.Stats
        RV.Model.GenSupport RV.Gen.Code.
From Coq Require Import NArith List Lia.
Import ListNotations.
Local Open Scope N_scope.

Lemma sum_map_snd : forall (f : cstats -> N) (m : cmap),
  sum_N (map f (map snd m)) = fold_right (fun ac acc => f (snd ac) + acc) 0 m.
Proof. intros f m. induction m as [|x m IH]; cbn [map sum_N fold_right]; [reflexivity|]. unfold sum_N in IH. rewrite IH. reflexivity. Qed.

Lemma sum_map_add : forall (f g : cstats -> N) (m : cmap),
  fold_right (fun ac acc => (f (snd ac) + g (snd ac)) + acc) 0 m
  = fold_right (fun ac acc => f (snd ac) + acc) 0 m + fold_right (fun ac acc => g (snd ac) + acc) 0 m.
Proof. intros f g m. induction m as [|x m IH]; cbn [fold_right]; [reflexivity|]. rewrite IH. lia. Qed.

Lemma map_id_N : forall (l : list N), map (fun v => v) l = l.
Proof. induction l as [|x l IH]; cbn [map]; [reflexivity|]. rewrite IH. reflexivity. Qed.

Section PerClient.
  Variables (clients : cmap) (ov : N) (mx : nat).
  Let st := mkpc clients ov mx.

  Theorem gen_pc_totals_model :
    gen_pc_num_rfc_requests clients = Ok (pc_total KRfcReq st)
    /\ gen_pc_num_classic_requests clients = Ok (pc_total KClassicReq st)
    /\ gen_pc_total_valid_requests clients = Ok (pc_total KRfcReq st + pc_total KClassicReq st)
    /\ gen_pc_total_invalid_requests clients = Ok (pc_total KInvalid st)
    /\ gen_pc_total_health_checks clients = Ok (pc_total KHealth st)
    /\ gen_pc_total_failed_send_attempts clients = Ok (pc_total KFailed st)
    /\ gen_pc_total_retried_send_attempts clients = Ok (pc_total KRetried st)
    /\ gen_pc_num_rfc_responses_sent clients = Ok (pc_total KRfcResp st)
    /\ gen_pc_num_classic_responses_sent clients = Ok (pc_total KClassicResp st)
    /\ gen_pc_total_responses_sent clients = Ok (pc_total KRfcResp st + pc_total KClassicResp st)
    /\ gen_pc_total_bytes_sent clients = Ok (pc_total_bytes st)
    /\ gen_pc_total_unique_clients clients = Ok (lenN clients).
  Proof.
    unfold gen_pc_num_rfc_requests, gen_pc_num_classic_requests, gen_pc_total_valid_requests,
      gen_pc_total_invalid_requests, gen_pc_total_health_checks, gen_pc_total_failed_send_attempts,
      gen_pc_total_retried_send_attempts, gen_pc_num_rfc_responses_sent, gen_pc_num_classic_responses_sent,
      gen_pc_total_responses_sent, gen_pc_total_bytes_sent, gen_pc_total_unique_clients,
      pc_total, pc_total_bytes, st. cbn [pc_clients cs_get].
    rewrite ?map_id_N, ?sum_map_snd, ?sum_map_add.
    repeat split; reflexivity.
  Qed.
End PerClient.

Theorem gen_agg_totals_model : forall c,
  let f := fun (g : N -> N -> N -> N -> N -> N -> N -> N -> N -> res N) =>
             g (c_rfc_req c) (c_classic_req c) (c_invalid c) (c_health c) (c_rfc_resp c) (c_classic_resp c)
               (c_bytes c) (c_failed c) (c_retried c) in
  f gen_agg_num_rfc_requests = Ok (cs_get KRfcReq c)
  /\ f gen_agg_num_classic_requests = Ok (cs_get KClassicReq c)
  /\ f gen_agg_total_valid_requests = Ok (cs_get KRfcReq c + cs_get KClassicReq c)
  /\ f gen_agg_total_invalid_requests = Ok (cs_get KInvalid c)
  /\ f gen_agg_total_health_checks = Ok (cs_get KHealth c)
  /\ f gen_agg_total_failed_send_attempts = Ok (cs_get KFailed c)
  /\ f gen_agg_total_retried_send_attempts = Ok (cs_get KRetried c)
  /\ f gen_agg_num_rfc_responses_sent = Ok (cs_get KRfcResp c)
  /\ f gen_agg_num_classic_responses_sent = Ok (cs_get KClassicResp c)
  /\ f gen_agg_total_responses_sent = Ok (cs_get KRfcResp c + cs_get KClassicResp c)
  /\ f gen_agg_total_bytes_sent = Ok (c_bytes c).
Proof. intros c f. repeat split; reflexivity. Qed.

(* so, through the translated accessors of both recorders: while no overflow occurs, every total the trait
   reports is the same number whichever recorder the server runs with (Model: stats_equiv) *)
Require Import RV.Proofs.StatsFacts.
Theorem gen_totals_agree : forall limit evs,
  pc_overflows (fst (pc_run (pc_new limit) evs)) = 0 ->
  let st := fst (pc_run (pc_new limit) evs) in
  let c := agg_run evs in
  gen_pc_total_valid_requests (pc_clients st)
  = gen_agg_total_valid_requests (c_rfc_req c) (c_classic_req c) (c_invalid c) (c_health c) (c_rfc_resp c) (c_classic_resp c) (c_bytes c) (c_failed c) (c_retried c)
  /\ gen_pc_total_invalid_requests (pc_clients st)
  = gen_agg_total_invalid_requests (c_rfc_req c) (c_classic_req c) (c_invalid c) (c_health c) (c_rfc_resp c) (c_classic_resp c) (c_bytes c) (c_failed c) (c_retried c)
  /\ gen_pc_total_responses_sent (pc_clients st)
  = gen_agg_total_responses_sent (c_rfc_req c) (c_classic_req c) (c_invalid c) (c_health c) (c_rfc_resp c) (c_classic_resp c) (c_bytes c) (c_failed c) (c_retried c)
  /\ gen_pc_total_bytes_sent (pc_clients st)
  = gen_agg_total_bytes_sent (c_rfc_req c) (c_classic_req c) (c_invalid c) (c_health c) (c_rfc_resp c) (c_classic_resp c) (c_bytes c) (c_failed c) (c_retried c)
  /\ gen_pc_total_health_checks (pc_clients st)
  = gen_agg_total_health_checks (c_rfc_req c) (c_classic_req c) (c_invalid c) (c_health c) (c_rfc_resp c) (c_classic_resp c) (c_bytes c) (c_failed c) (c_retried c).
Proof.
  intros limit evs Hov st c. destruct (stats_equiv limit evs Hov) as [Hk Hb]. fold st c in Hk, Hb.
  destruct (gen_pc_totals_model (pc_clients st) (pc_overflows st) (pc_max st)) as (P1 & P2 & P3 & P4 & P5 & P6 & P7 & P8 & P9 & P10 & P11 & _).
  destruct (gen_agg_totals_model c) as (A1 & A2 & A3 & A4 & A5 & A6 & A7 & A8 & A9 & A10 & A11).
  cbv zeta in A1, A2, A3, A4, A5, A6, A7, A8, A9, A10, A11.
  assert (Hst : mkpc (pc_clients st) (pc_overflows st) (pc_max st) = st) by (destruct st; reflexivity).
  rewrite Hst in *.
  rewrite P3, P4, P10, P11, P5, A3, A4, A10, A11, A5, !Hk, Hb. repeat split; reflexivity.
Qed.
