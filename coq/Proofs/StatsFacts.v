(* StatsFacts.v — proofs of the C17 goals of Spec/StatsGoals.v about Model/Stats.v. *)
From Coq Require Import ZArith Lia ZifyN ZifyBool ZifyNat.
Require Import RV.Model.Bytes RV.Model.Server RV.Model.Stats RV.Spec.StatsGoals.
Local Open Scope N_scope.

(* ------------------------------------------------------------------ *)
(* counters                                                            *)

Definition kinc (e : sev) (k : kind) : N := if kind_eqb (ev_kind e) k then 1 else 0.

Lemma cs_get_bump : forall k e c, cs_get k (cs_bump e c) = cs_get k c + kinc e k.
Proof. intros k e c. unfold kinc. destruct e, k; cbn; lia. Qed.

Lemma c_bytes_bump : forall e c, c_bytes (cs_bump e c) = c_bytes c + ev_bytes e.
Proof. intros e c. destruct e; cbn; lia. Qed.

Lemma cs_get_merge : forall k x y, cs_get k (cs_merge x y) = cs_get k x + cs_get k y.
Proof. intros k x y. destruct k; reflexivity. Qed.

Lemma c_bytes_merge : forall x y, c_bytes (cs_merge x y) = c_bytes x + c_bytes y.
Proof. reflexivity. Qed.

Lemma cs_get_zero : forall k, cs_get k cs_zero = 0.
Proof. intros k. destruct k; reflexivity. Qed.

(* ------------------------------------------------------------------ *)
(* the association-list map                                            *)

Lemma cm_lookup_upd_same : forall m a f, cm_lookup (cm_upd m a f) a = f (cm_lookup m a).
Proof.
  intros m a f. unfold cm_lookup.
  induction m as [|[b c] r IH]; cbn [cm_upd cm_get].
  - rewrite N.eqb_refl. reflexivity.
  - destruct (N.eqb_spec a b) as [Hab|Hab]; cbn [cm_get].
    + subst b. rewrite N.eqb_refl. reflexivity.
    + destruct (N.eqb_spec a b) as [Hab'|_]; [contradiction|]. exact IH.
Qed.

Lemma cm_lookup_upd_other : forall m a b f, b <> a -> cm_lookup (cm_upd m a f) b = cm_lookup m b.
Proof.
  intros m a b f Hba. unfold cm_lookup.
  induction m as [|[x c] r IH]; cbn [cm_upd cm_get].
  - destruct (N.eqb_spec b a) as [E|_]; [contradiction|]. reflexivity.
  - destruct (N.eqb_spec a x) as [Hax|Hax]; cbn [cm_get].
    + subst x. destruct (N.eqb_spec b a) as [E|_]; [contradiction|]. reflexivity.
    + destruct (N.eqb_spec b x) as [Hbx|Hbx]; [reflexivity|]. exact IH.
Qed.

Lemma cm_upd_length : forall m a f, (length (cm_upd m a f) <= S (length m))%nat.
Proof.
  intros m a f. induction m as [|[b c] r IH]; cbn [cm_upd length].
  - lia.
  - destruct (a =? b); cbn [length]; lia.
Qed.

Lemma cm_upd_keys_in : forall m a f x,
  In x (map fst (cm_upd m a f)) -> x = a \/ In x (map fst m).
Proof.
  intros m a f x. induction m as [|[b c] r IH]; cbn [cm_upd map fst In].
  - intros [H|[]]. left. symmetry. exact H.
  - destruct (a =? b); cbn [map fst In].
    + intros H. right. exact H.
    + intros [H|H].
      * right. left. exact H.
      * destruct (IH H) as [E|E]; [left; exact E|right; right; exact E].
Qed.

Lemma cm_upd_nodup : forall m a f, NoDup (map fst m) -> NoDup (map fst (cm_upd m a f)).
Proof.
  intros m a f. induction m as [|[b c] r IH]; cbn [cm_upd map fst]; intros Hnd.
  - constructor; [intros []|constructor].
  - destruct (N.eqb_spec a b) as [Hab|Hab]; cbn [map fst].
    + exact Hnd.
    + inversion Hnd as [|y l Hnin Hnd']; subst.
      constructor.
      * intros Hin. destruct (cm_upd_keys_in _ _ _ _ Hin) as [E|E].
        -- apply Hab. symmetry. exact E.
        -- apply Hnin. exact E.
      * apply IH. exact Hnd'.
Qed.

Lemma cm_get_notin : forall m a, ~ In a (map fst m) -> cm_get m a = None.
Proof.
  intros m a. induction m as [|[b c] r IH]; cbn [cm_get map fst In]; intros Hnin.
  - reflexivity.
  - destruct (N.eqb_spec a b) as [Hab|Hab].
    + exfalso. apply Hnin. left. symmetry. exact Hab.
    + apply IH. intros Hin. apply Hnin. right. exact Hin.
Qed.

(* ------------------------------------------------------------------ *)
(* abstract counting                                                   *)

Lemma count_ka_cons : forall k a e l,
  count_ka k a (e :: l) =
  (if kind_eqb (ev_kind e) k && (ev_addr e =? a) then 1 else 0) + count_ka k a l.
Proof.
  intros k a e l. unfold count_ka. cbn [filter].
  destruct (kind_eqb (ev_kind e) k && (ev_addr e =? a))%bool; cbn [length]; lia.
Qed.

Lemma count_ka_app : forall k a l1 l2, count_ka k a (l1 ++ l2) = count_ka k a l1 + count_ka k a l2.
Proof.
  intros k a l1 l2. unfold count_ka. rewrite filter_app, app_length. lia.
Qed.

Lemma count_k_cons : forall k e l, count_k k (e :: l) = kinc e k + count_k k l.
Proof.
  intros k e l. unfold count_k, kinc. cbn [filter].
  destruct (kind_eqb (ev_kind e) k); cbn [length]; lia.
Qed.

(* ------------------------------------------------------------------ *)
(* pc_step / pc_run with an arbitrary start state                      *)

Lemma pc_step_cases : forall st e st1 b, pc_step st e = (st1, b) ->
  (b = false /\ pc_clients st1 = pc_clients st /\ pc_overflows st1 = pc_overflows st + 1
     /\ pc_max st1 = pc_max st)
  \/ (b = true /\ (length (pc_clients st) < pc_max st)%nat
      /\ pc_clients st1 = cm_upd (pc_clients st) (ev_addr e) (cs_bump e)
      /\ pc_overflows st1 = pc_overflows st /\ pc_max st1 = pc_max st).
Proof.
  intros st e st1 b H. unfold pc_step in H.
  destruct (Nat.leb_spec (pc_max st) (length (pc_clients st))) as [Hle|Hlt];
    inversion H; subst; cbn [pc_clients pc_overflows pc_max].
  - left. repeat split.
  - right. repeat split. exact Hlt.
Qed.

Lemma pc_run_cons : forall st e r st' mask, pc_run st (e :: r) = (st', mask) ->
  exists st1 b bs, pc_step st e = (st1, b) /\ pc_run st1 r = (st', bs) /\ mask = b :: bs.
Proof.
  intros st e r st' mask H. cbn [pc_run] in H.
  destruct (pc_step st e) as [st1 b] eqn:Hs.
  destruct (pc_run st1 r) as [st2 bs] eqn:Hr.
  inversion H; subst. exists st1, b, bs. repeat split. exact Hr.
Qed.

Lemma pc_run_gen : forall evs st st' mask, pc_run st evs = (st', mask) ->
  length mask = length evs
  /\ (forall k a, cs_get k (cm_lookup (pc_clients st') a)
                  = cs_get k (cm_lookup (pc_clients st) a) + count_ka k a (select true evs mask))
  /\ (forall a, c_bytes (cm_lookup (pc_clients st') a)
                = c_bytes (cm_lookup (pc_clients st) a) + bytes_a a (select true evs mask))
  /\ pc_overflows st' = pc_overflows st + N.of_nat (length (select false evs mask)).
Proof.
  induction evs as [|e r IH]; intros st st' mask H.
  - cbn [pc_run] in H. inversion H; subst. cbn [select length]. unfold count_ka, bytes_a.
    cbn [filter length fold_right]. repeat split; intros; lia.
  - destruct (pc_run_cons _ _ _ _ _ H) as (st1 & b & bs & Hs & Hr & Hm). subst mask.
    destruct (IH _ _ _ Hr) as (IHl & IHc & IHb & IHo).
    destruct (pc_step_cases _ _ _ _ Hs) as [(Hb & Hc & Ho & _)|(Hb & _ & Hc & Ho & _)]; subst b;
      cbn [select Bool.eqb length].
    + rewrite Hc in IHc, IHb. repeat split.
      * rewrite IHl. reflexivity.
      * exact IHc.
      * exact IHb.
      * rewrite IHo, Ho. lia.
    + repeat split.
      * rewrite IHl. reflexivity.
      * intros k a. rewrite IHc, Hc, count_ka_cons.
        destruct (N.eqb_spec (ev_addr e) a) as [Ea|Ea].
        -- subst a. rewrite cm_lookup_upd_same, cs_get_bump. unfold kinc.
           rewrite Bool.andb_true_r. lia.
        -- rewrite cm_lookup_upd_other by (intros E; apply Ea; symmetry; exact E).
           rewrite Bool.andb_false_r. lia.
      * intros a. rewrite IHb, Hc. unfold bytes_a at 2. cbn [fold_right]. fold (bytes_a a (select true r bs)).
        destruct (N.eqb_spec (ev_addr e) a) as [Ea|Ea].
        -- subst a. rewrite cm_lookup_upd_same, c_bytes_bump. lia.
        -- rewrite cm_lookup_upd_other by (intros E; apply Ea; symmetry; exact E). lia.
      * rewrite IHo, Ho. reflexivity.
Qed.

Lemma stats_conservation : goal_conservation.
Proof.
  unfold goal_conservation. intros limit evs.
  destruct (pc_run (pc_new limit) evs) as [st mask] eqn:Hr.
  destruct (pc_run_gen _ _ _ _ Hr) as (Hl & Hc & Hb & Ho).
  cbn [pc_new pc_clients pc_overflows] in Hc, Hb, Ho. unfold cm_lookup in Hc at 2, Hb at 2.
  cbn [cm_get] in Hc, Hb.
  repeat split.
  - exact Hl.
  - intros k a. rewrite Hc, cs_get_zero. lia.
  - intros a. rewrite Hb. cbn [c_bytes cs_zero]. lia.
  - rewrite Ho. lia.
Qed.

(* ------------------------------------------------------------------ *)
(* bounded                                                             *)

Lemma pc_run_inv : forall evs st st' mask, pc_run st evs = (st', mask) ->
  (length (pc_clients st) <= pc_max st)%nat -> NoDup (map fst (pc_clients st)) ->
  (length (pc_clients st') <= pc_max st)%nat /\ NoDup (map fst (pc_clients st')) /\ pc_max st' = pc_max st.
Proof.
  induction evs as [|e r IH]; intros st st' mask H Hlen Hnd.
  - cbn [pc_run] in H. inversion H; subst. repeat split; assumption.
  - destruct (pc_run_cons _ _ _ _ _ H) as (st1 & b & bs & Hs & Hr & Hm).
    destruct (pc_step_cases _ _ _ _ Hs) as [(Hb & Hc & Ho & Hmx)|(Hb & Hlt & Hc & Ho & Hmx)].
    + rewrite <- Hmx, <- Hc in Hlen. rewrite <- Hc in Hnd.
      destruct (IH _ _ _ Hr Hlen Hnd) as (A & B & C). rewrite Hmx in A, C. repeat split; assumption.
    + assert (Hlen1 : (length (pc_clients st1) <= pc_max st1)%nat).
      { rewrite Hc, Hmx. pose proof (cm_upd_length (pc_clients st) (ev_addr e) (cs_bump e)). lia. }
      assert (Hnd1 : NoDup (map fst (pc_clients st1))).
      { rewrite Hc. apply cm_upd_nodup. exact Hnd. }
      destruct (IH _ _ _ Hr Hlen1 Hnd1) as (A & B & C). rewrite Hmx in A, C. repeat split; assumption.
Qed.

Lemma pc_run_new_inv : forall limit evs,
  (length (pc_clients (fst (pc_run (pc_new limit) evs))) <= limit)%nat
  /\ NoDup (map fst (pc_clients (fst (pc_run (pc_new limit) evs)))).
Proof.
  intros limit evs. destruct (pc_run (pc_new limit) evs) as [st mask] eqn:Hr. cbn [fst].
  destruct (pc_run_inv _ _ _ _ Hr) as (A & B & _).
  - cbn [pc_new pc_clients pc_max length]. lia.
  - cbn [pc_new pc_clients map]. constructor.
  - cbn [pc_new pc_max] in A. split; assumption.
Qed.

Lemma stats_bounded : goal_bounded.
Proof. unfold goal_bounded. exact pc_run_new_inv. Qed.

(* ------------------------------------------------------------------ *)
(* aggregated recorder                                                 *)

Lemma agg_fold_gen : forall evs c,
  (forall k, cs_get k (fold_left agg_step evs c) = cs_get k c + count_k k evs)
  /\ c_bytes (fold_left agg_step evs c) = c_bytes c + bytes_all evs.
Proof.
  induction evs as [|e r IH]; intros c; cbn [fold_left].
  - unfold count_k, bytes_all. cbn [filter length fold_right]. split; intros; lia.
  - destruct (IH (agg_step c e)) as [IHk IHb]. unfold agg_step in IHk, IHb |- *. split.
    + intros k. rewrite IHk, cs_get_bump, count_k_cons. lia.
    + rewrite IHb, c_bytes_bump. unfold bytes_all. cbn [fold_right]. lia.
Qed.

Lemma stats_agg : goal_agg.
Proof.
  unfold goal_agg, agg_run. intros evs. destruct (agg_fold_gen evs cs_zero) as [Hk Hb]. split.
  - intros k. rewrite Hk, cs_get_zero. lia.
  - rewrite Hb. cbn [c_bytes cs_zero]. lia.
Qed.

(* ------------------------------------------------------------------ *)
(* equivalence while nothing overflows                                 *)

Lemma total_upd_bump : forall k e a m,
  fold_right (fun ac acc => cs_get k (snd ac) + acc) 0 (cm_upd m a (cs_bump e))
  = fold_right (fun ac acc => cs_get k (snd ac) + acc) 0 m + kinc e k.
Proof.
  intros k e a m. induction m as [|[b c] r IH]; cbn [cm_upd fold_right snd].
  - rewrite cs_get_bump, cs_get_zero. lia.
  - destruct (a =? b); cbn [fold_right snd].
    + rewrite cs_get_bump. lia.
    + rewrite IH. lia.
Qed.

Lemma total_bytes_upd_bump : forall e a m,
  fold_right (fun ac acc => c_bytes (snd ac) + acc) 0 (cm_upd m a (cs_bump e))
  = fold_right (fun ac acc => c_bytes (snd ac) + acc) 0 m + ev_bytes e.
Proof.
  intros e a m. induction m as [|[b c] r IH]; cbn [cm_upd fold_right snd].
  - rewrite c_bytes_bump. cbn [c_bytes cs_zero]. lia.
  - destruct (a =? b); cbn [fold_right snd].
    + rewrite c_bytes_bump. lia.
    + rewrite IH. lia.
Qed.

Lemma pc_run_equiv_gen : forall evs st st' mask, pc_run st evs = (st', mask) ->
  pc_overflows st' = pc_overflows st ->
  (forall k, pc_total k st' = pc_total k st + count_k k evs)
  /\ pc_total_bytes st' = pc_total_bytes st + bytes_all evs.
Proof.
  induction evs as [|e r IH]; intros st st' mask H Hov.
  - cbn [pc_run] in H. inversion H; subst. unfold count_k, bytes_all.
    cbn [filter length fold_right]. split; intros; lia.
  - destruct (pc_run_cons _ _ _ _ _ H) as (st1 & b & bs & Hs & Hr & Hm).
    destruct (pc_run_gen _ _ _ _ Hr) as (_ & _ & _ & Ho').
    destruct (pc_step_cases _ _ _ _ Hs) as [(Hb & Hc & Ho & Hmx)|(Hb & Hlt & Hc & Ho & Hmx)].
    + exfalso. lia.
    + assert (Hov1 : pc_overflows st' = pc_overflows st1) by lia.
      destruct (IH _ _ _ Hr Hov1) as [IHk IHb]. split.
      * intros k. rewrite IHk, count_k_cons. unfold pc_total. rewrite Hc, total_upd_bump. lia.
      * rewrite IHb. unfold bytes_all. cbn [fold_right]. unfold pc_total_bytes.
        rewrite Hc, total_bytes_upd_bump. lia.
Qed.

Lemma stats_equiv : goal_equiv.
Proof.
  unfold goal_equiv. intros limit evs.
  destruct (pc_run (pc_new limit) evs) as [st mask] eqn:Hr. cbn [fst]. intros Hov.
  destruct (pc_run_equiv_gen _ _ _ _ Hr) as [Hk Hb].
  - cbn [pc_new pc_overflows]. exact Hov.
  - destruct (stats_agg evs) as [Ak Ab]. split.
    + intros k. rewrite Hk, Ak. unfold pc_total. cbn [pc_new pc_clients fold_right]. lia.
    + rewrite Hb, Ab. unfold pc_total_bytes. cbn [pc_new pc_clients fold_right]. lia.
Qed.

(* ------------------------------------------------------------------ *)
(* reporter merge                                                      *)

Definition ent_sum (k : kind) (a : addr) (s : cmap) : N :=
  fold_right (fun ac acc => (if fst ac =? a then cs_get k (snd ac) else 0) + acc) 0 s.
Definition ent_bytes (a : addr) (s : cmap) : N :=
  fold_right (fun ac acc => (if fst ac =? a then c_bytes (snd ac) else 0) + acc) 0 s.

Lemma lookup_merge_entry : forall m b c a,
  cm_lookup (rep_merge_entry m (b, c)) a
  = if b =? a then cs_merge (cm_lookup m a) c else cm_lookup m a.
Proof.
  intros m b c a. unfold rep_merge_entry. cbn [fst snd].
  destruct (N.eqb_spec b a) as [Eba|Eba].
  - subst b. rewrite cm_lookup_upd_same. reflexivity.
  - apply cm_lookup_upd_other. intros E. apply Eba. symmetry. exact E.
Qed.

Lemma merge_entries : forall snap m a,
  (forall k, cs_get k (cm_lookup (fold_left rep_merge_entry snap m) a)
             = cs_get k (cm_lookup m a) + ent_sum k a snap)
  /\ c_bytes (cm_lookup (fold_left rep_merge_entry snap m) a)
     = c_bytes (cm_lookup m a) + ent_bytes a snap.
Proof.
  induction snap as [|[b c] r IH]; intros m a; cbn [fold_left].
  - unfold ent_sum, ent_bytes. cbn [fold_right]. split; intros; lia.
  - destruct (IH (rep_merge_entry m (b, c)) a) as [IHk IHb].
    rewrite lookup_merge_entry in IHb.
    unfold ent_sum, ent_bytes. cbn [fold_right fst snd].
    fold (ent_bytes a r). split.
    + intros k. fold (ent_sum k a r). rewrite IHk, lookup_merge_entry.
      destruct (b =? a); [rewrite cs_get_merge|]; lia.
    + rewrite IHb. destruct (b =? a); [rewrite c_bytes_merge|]; lia.
Qed.

Lemma rep_receive_gen : forall snaps m a,
  (forall k, cs_get k (cm_lookup (rep_receive m snaps) a) = cs_get k (cm_lookup m a) + snap_sum k a snaps)
  /\ c_bytes (cm_lookup (rep_receive m snaps) a) = c_bytes (cm_lookup m a) + snap_bytes a snaps.
Proof.
  unfold rep_receive. induction snaps as [|s r IH]; intros m a; cbn [fold_left snap_sum snap_bytes].
  - split; intros; lia.
  - destruct (IH (fold_left rep_merge_entry s m) a) as [IHk IHb].
    destruct (merge_entries s m a) as [Mk Mb]. split.
    + intros k. rewrite IHk, Mk. unfold ent_sum. lia.
    + rewrite IHb, Mb. unfold ent_bytes. lia.
Qed.

Lemma stats_merge : goal_merge.
Proof.
  unfold goal_merge. intros snaps a. destruct (rep_receive_gen snaps [] a) as [Hk Hb].
  unfold cm_lookup in Hk at 2, Hb at 2. cbn [cm_get] in Hk, Hb. split.
  - intros k. rewrite Hk, cs_get_zero. lia.
  - rewrite Hb. cbn [c_bytes cs_zero]. lia.
Qed.

(* ------------------------------------------------------------------ *)
(* end to end                                                          *)

Lemma ent_sum_lookup : forall k a m, NoDup (map fst m) -> ent_sum k a m = cs_get k (cm_lookup m a).
Proof.
  intros k a m. unfold ent_sum, cm_lookup.
  induction m as [|[b c] r IH]; cbn [map fst snd fold_right cm_get]; intros Hnd.
  - rewrite cs_get_zero. reflexivity.
  - inversion Hnd as [|y l Hnin Hnd']; subst.
    destruct (N.eqb_spec b a) as [Eba|Eba].
    + subst b. rewrite N.eqb_refl. rewrite (IH Hnd'), (cm_get_notin _ _ Hnin), cs_get_zero. lia.
    + destruct (N.eqb_spec a b) as [Eab|_]; [exfalso; apply Eba; symmetry; exact Eab|].
      rewrite (IH Hnd'). lia.
Qed.

Lemma split_sum : forall limit k a (segments : list (list sev)),
  snap_sum k a (map (fun r => pc_clients (fst r)) (map (fun evs => pc_run (pc_new limit) evs) segments))
  = count_ka k a (concat (map (fun p : list sev * (pcstate * list bool) => select true (fst p) (snd (snd p)))
       (combine segments (map (fun evs => pc_run (pc_new limit) evs) segments)))).
Proof.
  intros limit k a. induction segments as [|evs r IH]; cbn [map combine concat snap_sum fst snd].
  - reflexivity.
  - rewrite count_ka_app, <- IH. f_equal.
    destruct (pc_run_new_inv limit evs) as [_ Hnd].
    pose proof (stats_conservation limit evs) as Hc.
    destruct (pc_run (pc_new limit) evs) as [st mask] eqn:Hr. cbn [fst snd] in Hnd |- *.
    destruct Hc as (_ & Hc & _ & _).
    rewrite <- Hc. apply (ent_sum_lookup k a _ Hnd).
Qed.

Lemma stats_split_merge : goal_split_merge.
Proof.
  unfold goal_split_merge. intros limit segments a k. cbv zeta.
  destruct (stats_merge (map (fun r => pc_clients (fst r))
              (map (fun evs => pc_run (pc_new limit) evs) segments)) a) as [Hk _].
  rewrite Hk. apply split_sum.
Qed.

Print Assumptions stats_conservation.
Print Assumptions stats_bounded.
Print Assumptions stats_agg.
Print Assumptions stats_equiv.
Print Assumptions stats_merge.
Print Assumptions stats_split_merge.

(* ------------------------------------------------------------------ *)
(* the shared queue: publish (force_push, evicting the oldest when full) / drain *)

Lemma snap_sum_app : forall k a x y, snap_sum k a (x ++ y) = snap_sum k a x + snap_sum k a y.
Proof.
  intros k a x y. induction x as [|s r IH]; cbn [app snap_sum]; [lia|]. rewrite IH. lia.
Qed.

Lemma snap_sum_one : forall k a s, snap_sum k a [s] = ent_sum k a s.
Proof. intros. cbn [snap_sum]. unfold ent_sum. lia. Qed.

Definition q_total (k : kind) (a : addr) (st : squeue * cmap * list cmap) : N :=
  let '(q, m, l) := st in
  cs_get k (cm_lookup m a) + snap_sum k a (sq_items q) + snap_sum k a l.

Lemma q_run_total : forall k a ops q m l,
  q_total k a (q_run q m l ops) = q_total k a (q, m, l) + snap_sum k a (pushed_snaps ops).
Proof.
  intros k a. induction ops as [|o r IH]; intros q m l.
  - cbn [q_run pushed_snaps flat_map snap_sum]. lia.
  - destruct o as [x|].
    + destruct x as [|e x'].
      * cbn [q_run pushed_snaps flat_map app]. fold (pushed_snaps r). apply IH.
      * cbn [q_run]. unfold sq_force_push.
        change (pushed_snaps (QPush (e :: x') :: r)) with ((e :: x') :: pushed_snaps r).
        destruct (length (sq_items q) <? sq_cap q)%nat.
        -- rewrite IH. unfold q_total. cbn [sq_items]. rewrite snap_sum_app.
           cbn [snap_sum]. lia.
        -- destruct (sq_items q) as [|old rest] eqn:Ei.
           ++ rewrite IH. unfold q_total. cbn [sq_items]. rewrite Ei. cbn [snap_sum]. lia.
           ++ rewrite IH. unfold q_total. cbn [sq_items]. rewrite Ei, !snap_sum_app.
              cbn [snap_sum]. lia.
    + cbn [q_run]. change (pushed_snaps (QDrain :: r)) with (pushed_snaps r).
      rewrite IH. unfold q_total. cbn [sq_items snap_sum].
      destruct (rep_receive_gen (sq_items q) m a) as [Hk _]. rewrite Hk. lia.
Qed.

Lemma q_run_app : forall ops1 ops2 q m l,
  q_run q m l (ops1 ++ ops2) = (let '(q1, m1, l1) := q_run q m l ops1 in q_run q1 m1 l1 ops2).
Proof.
  induction ops1 as [|o r IH]; intros ops2 q m l; [reflexivity|].
  destruct o as [x|]; cbn [app q_run].
  - destruct x; [apply IH|]. destruct (sq_force_push q (p :: x)) as [q' ev]. apply IH.
  - apply IH.
Qed.

Lemma queue_conservation : goal_queue_conservation.
Proof.
  unfold goal_queue_conservation. intros cap ops a k.
  pose proof (q_run_total k a (ops ++ [QDrain]) (mksq cap []) [] []) as Ht.
  rewrite q_run_app in *.
  destruct (q_run (mksq cap []) [] [] ops) as [[q1 m1] l1] eqn:E1.
  cbn [q_run] in *. split; [reflexivity|].
  unfold q_total in Ht. cbn [sq_items snap_sum] in Ht.
  unfold pushed_snaps in Ht. rewrite flat_map_app in Ht. cbn [flat_map app] in Ht. rewrite app_nil_r in Ht.
  fold (pushed_snaps ops) in Ht.
  unfold cm_lookup in Ht at 2. cbn [cm_get] in Ht. rewrite cs_get_zero in Ht. lia.
Qed.

Lemma q_run_lossless : forall cap ops q m l,
  sq_cap q = cap -> within_capacity cap (length (sq_items q)) ops = true ->
  snd (q_run q m l ops) = l.
Proof.
  intros cap. induction ops as [|o r IH]; intros q m l Hc Hw; [reflexivity|].
  destruct o as [x|].
  - destruct x as [|e x'].
    + cbn [q_run within_capacity] in *. apply IH; assumption.
    + cbn [within_capacity] in Hw. apply andb_true_iff in Hw. destruct Hw as [Hle Hw].
      cbn [q_run]. unfold sq_force_push. rewrite Hc.
      assert ((length (sq_items q) <? cap)%nat = true) as -> by lia.
      apply IH; cbn [sq_cap sq_items]; [reflexivity|]. rewrite app_length. cbn [length].
      replace (length (sq_items q) + 1)%nat with (S (length (sq_items q))) by lia. exact Hw.
  - cbn [q_run within_capacity] in *. apply IH; cbn [sq_cap sq_items length]; assumption.
Qed.

Lemma queue_lossless : goal_queue_lossless.
Proof.
  unfold goal_queue_lossless. intros cap ops Hw.
  apply (q_run_lossless cap ops (mksq cap []) [] []); [reflexivity|exact Hw].
Qed.
