(* CodeReport.v — Reporter::report (src/stats/reporter.rs) as translated on this run against a three-line
   specification of what ends up in the published file. *)
Require Import RV.Model.Bytes RV.Gen.Tables RV.Model.Tag RV.Model.Message RV.Model.Server RV.Model.Stats
        RV.Model.GenSupport RV.Gen.Code.
From Coq Require Import NArith List Lia.
Import ListNotations.
Local Open Scope N_scope.

(* ------------------------------------------------------------------ Reporter::report, as translated on this
   run. env.file = what the CSV writer was handed (None: no file created). The longest prefix of the merged
   records that serialises is written, in the order of the map; with nothing merged or no persistence directory
   nothing is created; a file that cannot be created leaves everything as it was. *)
Fixpoint take_ok (ok : cstats -> bool) (l : list cstats) : list cstats :=
  match l with
  | [] => []
  | c :: r => if ok c then c :: take_ok ok r else []
  end.

Definition report_spec (ser_ok : cstats -> bool) (create_ok : bool) (clients : cmap) (loc : option bytes)
                       (file : option (list cstats)) : option (list cstats) :=
  match clients, loc with
  | [], _ => file
  | _ :: _, None => file
  | _ :: _, Some _ => if create_ok then Some (take_ok ser_ok (map snd clients)) else file
  end.

Lemma report_fold : forall ser_ok l acc n,
  fold_brk (E := error) (fun '(f, np) stat =>
      let '(sc, f') := csv_ser ser_ok f stat in
      match sc with
      | Ok _ => Ok ((f', np + 1), false)
      | Err _ => Ok ((f', np), true)
      | Panic s => Panic s
      end) l (Some acc, n)
  = Ok (Some (acc ++ take_ok ser_ok l), n + lenN (take_ok ser_ok l)).
Proof.
  intros ser_ok l. induction l as [|c r IH]; intros acc n; cbn [fold_brk take_ok].
  - rewrite app_nil_r. cbn [lenN length]. rewrite N.add_0_r. reflexivity.
  - unfold csv_ser at 1. destruct (ser_ok c) eqn:Hc; cbn [obind snd fst].
    + rewrite IH. rewrite <- app_assoc. cbn [app]. f_equal. f_equal.
      unfold lenN. cbn [length]. rewrite Nat2N.inj_succ. rewrite <- N.add_1_l. rewrite N.add_assoc. reflexivity.
    + rewrite app_nil_r. cbn [lenN length]. rewrite N.add_0_r. reflexivity.
Qed.

Theorem gen_reporter_report_model : forall ser_ok create_ok clients loc file,
  gen_reporter_report ser_ok create_ok clients loc file = Ok (report_spec ser_ok create_ok clients loc file).
Proof.
  intros ser_ok create_ok clients loc file. unfold gen_reporter_report, report_spec. cbv zeta.
  destruct clients as [|c0 cl]; [reflexivity|].
  destruct loc as [p|]; [|reflexivity].
  destruct create_ok; [|reflexivity].
  cbn [obind]. rewrite (report_fold ser_ok (map snd (c0 :: cl)) [] 0). cbn [obind app]. reflexivity.
Qed.

(* the published file holds every merged record exactly once when the records serialise *)
Theorem report_writes_every_merged_record : forall ser_ok clients p file,
  clients <> [] -> (forall c, In c (map snd clients) -> ser_ok c = true) ->
  gen_reporter_report ser_ok true clients (Some p) file = Ok (Some (map snd clients)).
Proof.
  intros ser_ok clients p file Hne Hall. rewrite gen_reporter_report_model. unfold report_spec.
  destruct clients as [|c0 cl]; [contradiction Hne; reflexivity|].
  f_equal. f_equal. revert Hall. generalize (map snd (c0 :: cl)) as l.
  induction l as [|c r IH]; intro Hall; cbn [take_ok]; [reflexivity|].
  rewrite (Hall c (or_introl eq_refl)). f_equal. apply IH. intros x Hx. apply Hall. right. exact Hx.
Qed.

Example report_example :
  let a := mkcs 1 0 0 0 1 0 1024 0 0 in let b := mkcs 0 2 0 0 0 2 2048 0 0 in
  report_spec (fun _ => true) true [(1, a); (2, b)] (Some []) None = Some [a; b]
  /\ report_spec (fun _ => true) true [(1, a)] None None = None
  /\ report_spec (fun c => N.eqb (c_rfc_req c) 1) true [(1, a); (2, b)] (Some []) None = Some [a].
Proof. repeat split; reflexivity. Qed.
