(* SitesLog.v — every logging / printing call site of today's scan is covered by the reviewed map (C20) *)
From Coq Require Import List String Bool.
Require Import RV.Gen.Sites RV.Model.SiteMap RV.Proofs.SitesCommon.
Import ListNotations.

Lemma log_sites_covered_bool : forallb (covered log_site_map) log_sites = true.
Proof. vm_compute. reflexivity. Qed.

(* every logging / printing / formatting call site of today's sources has been reviewed *)
Lemma log_sites_covered : forall s, In s log_sites -> exists note, In (s, note) log_site_map.
Proof.
  intros s Hin. pose proof log_sites_covered_bool as Hb.
  rewrite forallb_forall in Hb. specialize (Hb s Hin). unfold covered in Hb.
  apply existsb_exists in Hb. destruct Hb as [[k note] [Hk He]]. cbn [fst] in He.
  apply site_eqb_eq in He. subst k. exists note. exact Hk.
Qed.

