(* CodeMsgRound.v — the round trip through the translated decoder and encoder *)
Require Import RV.Model.Bytes RV.Gen.Tables RV.Model.Tag RV.Model.Message RV.Model.GenSupport RV.Gen.Code.
Require Import RV.Proofs.TagFacts RV.Proofs.BytesFacts RV.Proofs.CodeLib.
From Coq Require Import ZArith Lia ZifyN ZifyBool ZifyNat List.
Import ListNotations.
Ltac Zify.zify_post_hook ::= Z.div_mod_to_equations.
Local Open Scope N_scope.
Require Import RV.Proofs.CodecDecode RV.Proofs.CodeMsgEnc RV.Proofs.CodeMsgDec.

Lemma gen_canonical : forall bs tags values, lenN bs < two32 -> length tags = length values ->
    gen_from_bytes bs = Ok (combine tags values) -> combine tags values <> [] ->
    gen_encode tags values = Ok bs.
Proof.
  intros bs tags values Hb Hl Hd Hne.
  rewrite (gen_encode_model tags values Hl). rewrite gen_from_bytes_model in Hd.
  exact (canonical bs _ Hb Hd Hne).
Qed.
