(* CodeTree.v — the tree-building half of src/merkle.rs as translated on this run (node_len, hash,
   hash_leaf, hash_nodes, push_leaf, is_empty, reset, get_paths, compute_root: `while` loops on fuel,
   in-place updates of `self.levels[i]`), against Model/Merkle.v. *)
Require Import RV.Model.Bytes RV.Gen.Tables RV.Model.Tag RV.Model.Message RV.Model.Merkle RV.Model.Keys
        RV.Model.Server RV.Model.GenSupport RV.Gen.Code RV.Spec.MerkleGoals.
Require Import RV.Proofs.BytesFacts RV.Proofs.CodeLib RV.Proofs.CodeMerkle.
From Coq Require Import ZArith Lia ZifyN ZifyBool ZifyNat List.
Import ListNotations.
Ltac Zify.zify_post_hook ::= Z.div_mod_to_equations.
Local Open Scope N_scope.

Lemma kt_node_len : forall v, gen_node_len v = Ok (N.of_nat (node_len v)).
Proof. intros [|]; reflexivity. Qed.

Section Tree.
  Variable H : bytes -> bytes.
  Hypothesis HL : HashLen H.

  Lemma kt_fold_concat : forall (l : list bytes) acc,
    fold_res (fun (c : bytes) (d : bytes) => Ok (c ++ d)) l acc = Ok (acc ++ concat l).
  Proof.
    induction l as [|x l IH]; intros acc; cbn [fold_res concat obind].
    - rewrite app_nil_r. reflexivity.
    - rewrite IH, app_assoc. reflexivity.
  Qed.

  Lemma kt_hash : forall v l, gen_hash H v l = Ok (hashv H v (concat l)).
  Proof.
    intros v l. unfold gen_hash, hashv. cbv zeta. rewrite kt_fold_concat. cbn [obind app].
    rewrite kt_node_len. cbn [obind].
    unfold slice_n, slice. change (N.to_nat 0) with 0%nat. rewrite Nat2N.id.
    replace ((node_len v <? 0)%nat || (length (H (concat l)) <? node_len v)%nat) with false
      by (rewrite HL; destruct v; cbn; lia).
    cbn [skipn obind]. rewrite Nat.sub_0_r. reflexivity.
  Qed.

  Lemma kt_hash_leaf : forall v d, gen_hash_leaf H v d = Ok (hash_leaf H v d).
  Proof. intros. unfold gen_hash_leaf, hash_leaf. rewrite kt_hash. cbn [obind concat]. rewrite app_nil_r. reflexivity. Qed.

  Lemma kt_hash_nodes : forall v a b, gen_hash_nodes H v a b = Ok (hash_nodes H v a b).
  Proof. intros. unfold gen_hash_nodes, hash_nodes. rewrite kt_hash. cbn [obind concat]. rewrite app_nil_r. reflexivity. Qed.

  (* push_leaf *)
  Lemma gen_push_leaf_model : forall v lvs d,
    ok_opt (omap (fun lv => mktree lv v) (gen_push_leaf H v lvs d))
    = ok_opt (push_leaf H (mktree lvs v) d).
  Proof.
    intros v lvs d. unfold gen_push_leaf, push_leaf. rewrite kt_hash_leaf. cbn [obind levels tver].
    destruct lvs as [|l0 r]; reflexivity.
  Qed.

  Lemma gen_tree_is_empty_model : forall v lvs,
    ok_opt (gen_tree_is_empty lvs) = ok_opt (tree_is_empty (mktree lvs v)).
  Proof. intros v [|l0 r]; reflexivity. Qed.

  Lemma gen_tree_reset_model : forall v lvs,
    omap (fun lv => mktree lv v) (gen_tree_reset lvs) = Ok (reset (mktree lvs v)).
  Proof. reflexivity. Qed.
End Tree.

(* ------------------------------------------------------------------ get_paths *)

Lemma kt_even_mod2 : forall i : N, Nat.even (N.to_nat i) = (i mod 2 =? 0).
Proof.
  intros i. destruct (Nat.even (N.to_nat i)) eqn:E.
  - apply Nat.even_spec in E. destruct E as [k Hk]. symmetry. apply N.eqb_eq. lia.
  - assert (Ho : Nat.odd (N.to_nat i) = true) by (rewrite <- Nat.negb_even, E; reflexivity).
    apply Nat.odd_spec in Ho. destruct Ho as [k Hk]. symmetry. apply N.eqb_neq. lia.
Qed.

Lemma kt_idx_skipn : forall {A} (l : list A) (n : N),
  vec_idx_p site_gen l n = match skipn (N.to_nat n) l with x :: _ => Ok x | [] => Panic site_gen end.
Proof.
  intros A l n. unfold vec_idx_p. generalize (N.to_nat n) as k. intros k. revert l.
  induction k as [|k IH]; intros [|x l]; cbn [nth_error skipn]; try reflexivity. apply IH.
Qed.

Lemma kt_skipn_S : forall {A} (l : list A) k x r, skipn k l = x :: r -> skipn (S k) l = r.
Proof.
  intros A l k. revert l. induction k as [|k IH]; intros [|y l] x r Hs; cbn [skipn] in *; try discriminate.
  - injection Hs as _ ->. reflexivity.
  - exact (IH l x r Hs).
Qed.

Lemma kt_get_paths_loop : forall (lvs : list (list bytes)) (C : _ -> res bool) (B : _ -> res (bytes * N * N)),
  (forall p lv ix, C (p, lv, ix) =
     obind (vec_idx_p site_gen lvs lv) (fun e => Ok (negb (match e with [] => true | _ => false end)))) ->
  (forall p lv ix, B (p, lv, ix) =
     obind (if (ix mod 2) =? 0 then Ok (ix + 1) else obind (sub_chk site_gen ix 1) (fun d => Ok d)) (fun sib =>
     obind (vec_idx_p site_gen lvs lv) (fun e =>
     obind (vec_idx_p site_gen e sib) (fun e' =>
     Ok (p ++ e', lv + 1, ix / 2))))) ->
  forall rest fuel p lv ix,
    skipn (N.to_nat lv) lvs = rest -> (length rest < fuel)%nat ->
    ok_opt (obind (while_fuel fuel C B (p, lv, ix)) (fun '(p', lv', _) =>
              if lv' <=? 32 then Ok p' else Panic site_gen))
    = obo (ok_opt (paths_loop rest (N.to_nat ix) (N.to_nat lv))) (fun q => Some (p ++ q)).
Proof.
  intros lvs C B HC HB. induction rest as [|l rest IH]; intros fuel p lv ix Hsk Hf.
  - destruct fuel as [|f]; [lia|]. cbn [while_fuel paths_loop]. rewrite HC, kt_idx_skipn, Hsk. reflexivity.
  - destruct fuel as [|f]; [cbn [length] in Hf; lia|]. cbn [while_fuel paths_loop]. rewrite HC, kt_idx_skipn, Hsk.
    cbn [obind]. destruct l as [|n0 l0].
    + cbn [negb obind]. replace (N.to_nat lv <=? 32)%nat with (lv <=? 32) by lia.
      destruct (lv <=? 32); cbn [ok_opt obo]; [rewrite app_nil_r|]; reflexivity.
    + cbn [negb]. rewrite HB, kt_idx_skipn, Hsk. rewrite kt_even_mod2.
      unfold sub_chk.
      destruct (ix mod 2 =? 0) eqn:Eev; cbn [obind].
      * unfold vec_idx_p. replace (N.to_nat (ix + 1)) with (S (N.to_nat ix)) by lia.
        destruct (nth_error (n0 :: l0) (S (N.to_nat ix))) as [s|]; cbn [obind ok_opt obo]; [|reflexivity].
        rewrite (IH f (p ++ s) (lv + 1) (ix / 2)).
        -- replace (N.to_nat (lv + 1)) with (S (N.to_nat lv)) by lia.
           replace (N.to_nat (ix / 2)) with (Nat.div (N.to_nat ix) 2) by (rewrite N2Nat.inj_div; reflexivity).
           destruct (paths_loop rest _ _) as [q| |]; cbn [obind ok_opt obo]; try reflexivity.
           rewrite app_assoc. reflexivity.
        -- replace (N.to_nat (lv + 1)) with (S (N.to_nat lv)) by lia. exact (kt_skipn_S _ _ _ _ Hsk).
        -- cbn [length] in Hf. lia.
      * assert (Hix : 1 <= ix) by (apply N.eqb_neq in Eev; lia).
        replace (ix <? 1) with false by lia. cbn [obind].
        unfold vec_idx_p. replace (N.to_nat (ix - 1)) with (pred (N.to_nat ix)) by lia.
        destruct (nth_error (n0 :: l0) (pred (N.to_nat ix))) as [s|]; cbn [obind ok_opt obo]; [|reflexivity].
        rewrite (IH f (p ++ s) (lv + 1) (ix / 2)).
        -- replace (N.to_nat (lv + 1)) with (S (N.to_nat lv)) by lia.
           replace (N.to_nat (ix / 2)) with (Nat.div (N.to_nat ix) 2) by (rewrite N2Nat.inj_div; reflexivity).
           destruct (paths_loop rest _ _) as [q| |]; cbn [obind ok_opt obo]; try reflexivity.
           rewrite app_assoc. reflexivity.
        -- replace (N.to_nat (lv + 1)) with (S (N.to_nat lv)) by lia. exact (kt_skipn_S _ _ _ _ Hsk).
        -- cbn [length] in Hf. lia.
Qed.

Theorem gen_get_paths_model : forall v lvs index,
  ok_opt (gen_get_paths v lvs index) = ok_opt (get_paths (mktree lvs v) (N.to_nat index)).
Proof.
  intros v lvs index. unfold gen_get_paths, get_paths. rewrite kt_node_len. cbn [obind levels]. cbv zeta.
  match goal with |- ok_opt (obind (while_fuel _ ?C ?B _) _) = _ =>
    pose proof (kt_get_paths_loop lvs C B) as HL
  end.
  specialize (HL ltac:(body_eq) ltac:(body_eq) lvs (S (length lvs)) [] 0 index eq_refl ltac:(lia)).
  etransitivity; [exact HL|]. change (N.to_nat 0) with 0%nat.
  destruct (paths_loop lvs (N.to_nat index) 0); reflexivity.
Qed.

(* ------------------------------------------------------------------ compute_root *)

Lemma kt_idx_mid : forall {A} (below : list A) x r,
  vec_idx_p site_gen (below ++ x :: r) (N.of_nat (length below)) = Ok x.
Proof.
  intros. unfold vec_idx_p. rewrite Nat2N.id, nth_error_app2, Nat.sub_diag by lia. reflexivity.
Qed.

Lemma kt_set_nat_mid : forall {A} (below : list A) x r y,
  vec_set_nat (below ++ x :: r) (length below) y = below ++ y :: r.
Proof. induction below as [|b below IH]; intros; cbn [app length vec_set_nat]; [reflexivity|rewrite IH; reflexivity]. Qed.

Lemma kt_set_mid : forall {A} (below : list A) x r y,
  vec_set (below ++ x :: r) (N.of_nat (length below)) y = below ++ y :: r.
Proof. intros. unfold vec_set. rewrite Nat2N.id. apply kt_set_nat_mid. Qed.

Lemma kt_idx_next : forall {A} (below : list A) x y r,
  vec_idx_p site_gen (below ++ x :: y :: r) (N.of_nat (length below) + 1) = Ok y.
Proof.
  intros. replace (below ++ x :: y :: r) with ((below ++ [x]) ++ y :: r) by (rewrite <- app_assoc; reflexivity).
  replace (N.of_nat (length below) + 1) with (N.of_nat (length (below ++ [x]))) by (rewrite app_length; cbn [length]; lia).
  apply kt_idx_mid.
Qed.

Lemma kt_set_next : forall {A} (below : list A) x y r z,
  vec_set (below ++ x :: y :: r) (N.of_nat (length below) + 1) z = below ++ x :: z :: r.
Proof.
  intros. replace (below ++ x :: y :: r) with ((below ++ [x]) ++ y :: r) by (rewrite <- app_assoc; reflexivity).
  replace (N.of_nat (length below) + 1) with (N.of_nat (length (below ++ [x]))) by (rewrite app_length; cbn [length]; lia).
  rewrite kt_set_mid, <- app_assoc. reflexivity.
Qed.

Lemma kt_odd_mod2 : forall n : N, Nat.odd (N.to_nat n) = negb (n mod 2 =? 0).
Proof. intros. rewrite <- Nat.negb_even, kt_even_mod2. reflexivity. Qed.

Section Root.
  Variable H : bytes -> bytes.
  Hypothesis HL : HashLen H.
  Variable v : version.

  (* the inner `for i in 0..node_count` loop *)
  Lemma kt_pair_loop : forall (below : list (list bytes)) (cur : list bytes) (above : list (list bytes))
      (F : list (list bytes) -> N -> res (list (list bytes))),
    (forall lv i, F lv i =
       obind (sub_chk site_gen (N.of_nat (length below) + 1) 1) (fun d1 =>
       obind (vec_idx_p site_gen lv d1) (fun e1 =>
       obind (vec_idx_p site_gen e1 (i * 2)) (fun a =>
       obind (sub_chk site_gen (N.of_nat (length below) + 1) 1) (fun d2 =>
       obind (vec_idx_p site_gen lv d2) (fun e2 =>
       obind (vec_idx_p site_gen e2 (i * 2 + 1)) (fun b =>
       obind (gen_hash_nodes H v a b) (fun h =>
       obind (vec_idx_p site_gen lv (N.of_nat (length below) + 1)) (fun e3 =>
       Ok (vec_set lv (N.of_nat (length below) + 1) (e3 ++ [h])))))))))))  ->
    forall k i nx,
    ok_opt (fold_res F (map N.of_nat (seq i k)) (below ++ cur :: nx :: above))
    = obo (ok_opt (pair_hashes H v k i cur)) (fun hs => Some (below ++ cur :: (nx ++ hs) :: above)).
  Proof.
    intros below cur above F HF. induction k as [|k IH]; intros i nx.
    - cbn [seq map fold_res pair_hashes ok_opt obo]. rewrite app_nil_r. reflexivity.
    - cbn [seq map fold_res pair_hashes]. rewrite HF. unfold sub_chk.
      replace (N.of_nat (length below) + 1 <? 1) with false by lia. cbn [obind].
      replace (N.of_nat (length below) + 1 - 1) with (N.of_nat (length below)) by lia.
      rewrite kt_idx_mid. cbn [obind]. unfold vec_idx_p at 1 2.
      replace (N.to_nat (N.of_nat i * 2)) with (2 * i)%nat by lia.
      replace (N.to_nat (N.of_nat i * 2 + 1)) with (2 * i + 1)%nat by lia.
      destruct (nth_error cur (2 * i)) as [a|]; cbn [obind ok_opt obo]; [|reflexivity].
      destruct (nth_error cur (2 * i + 1)) as [b|]; cbn [obind ok_opt obo]; [|reflexivity].
      rewrite (kt_hash_nodes H HL). cbn [obind]. rewrite kt_idx_next. cbn [obind]. rewrite kt_set_next.
      rewrite IH. destruct (pair_hashes H v k (S i) cur) as [hs| |]; cbn [obind ok_opt obo]; try reflexivity.
      rewrite <- app_assoc. reflexivity.
  Qed.

  Definition root_post (st : N * list (list bytes) * N) : res (bytes * list (list bytes)) :=
    let '(level, lv, _) := st in
    obind (vec_idx_p site_gen lv level) (fun e =>
    if lenN e =? 1 then
      obind (pop_level site_gen lv level) (fun '(result, lv') =>
      obind (gen_finalize_output v result) (fun m =>
      obind (Ok m) (fun r_v => Ok (r_v, lv'))))
    else Panic site_gen).

  Lemma kt_range0 : forall k, range_n 0 k = map N.of_nat (seq 0 (N.to_nat k)).
  Proof. intros. unfold range_n. rewrite N.sub_0_r. apply map_ext. intros. lia. Qed.

  Lemma kt_root_loop : forall (C : _ -> res bool) (B : _ -> res (N * list (list bytes) * N)),
    (forall l lv nc, C (l, lv, nc) = Ok (1 <? nc)) ->
    (forall level lv nc, B (level, lv, nc) =
       obind (if lenN lv <? (level + 1) + 1 then Ok (lv ++ [[]]) else Ok lv) (fun lv1 =>
       obind (if negb ((nc mod 2) =? 0) then
                obind (obind (gen_node_len v) (fun nl => Ok (repeat_byte x00 (N.to_nat nl)))) (fun z =>
                obind (sub_chk site_gen (level + 1) 1) (fun d =>
                obind (vec_idx_p site_gen lv1 d) (fun e =>
                Ok (vec_set lv1 d (e ++ [z]), nc + 1))))
              else Ok (lv1, nc)) (fun '(lv2, nc2) =>
       obind (fold_res (fun lvx i =>
                obind (sub_chk site_gen (level + 1) 1) (fun d1 =>
                obind (vec_idx_p site_gen lvx d1) (fun e1 =>
                obind (vec_idx_p site_gen e1 (i * 2)) (fun a =>
                obind (sub_chk site_gen (level + 1) 1) (fun d2 =>
                obind (vec_idx_p site_gen lvx d2) (fun e2 =>
                obind (vec_idx_p site_gen e2 (i * 2 + 1)) (fun b =>
                obind (gen_hash_nodes H v a b) (fun h =>
                obind (vec_idx_p site_gen lvx (level + 1)) (fun e3 =>
                Ok (vec_set lvx (level + 1) (e3 ++ [h])))))))))))
              (range_n 0 (nc2 / 2)) lv2) (fun lv3 =>
       Ok (level + 1, lv3, nc2 / 2))))) ->
    forall fuel below cur above nc,
    ok_opt (obind (while_fuel fuel C B (N.of_nat (length below), below ++ cur :: above, nc)) root_post)
    = obo (ok_opt (root_loop H fuel v below cur above (N.to_nat nc))) (fun p => Some (snd p, fst p)).
  Proof.
    intros C B HC HB. induction fuel as [|f IH]; intros below cur above nc; [reflexivity|].
    cbn [while_fuel root_loop]. rewrite HC. cbn [obind].
    replace (N.to_nat nc <=? 1)%nat with (negb (1 <? nc)) by lia.
    destruct (1 <? nc) eqn:Enc; cbn [negb].
    2:{ (* the loop is over: the root level must hold exactly one node *)
        cbn [obind root_post]. rewrite kt_idx_mid. cbn [obind].
        destruct cur as [|r [|r2 cur]].
        - reflexivity.
        - change (lenN [r] =? 1) with true. cbv iota.
          unfold pop_level. rewrite kt_idx_mid. cbn [obind rev app]. rewrite kt_set_mid.
          pose proof (RV.Proofs.CodeMerkle.gen_finalize_model v r) as Hf.
          destruct (gen_finalize_output v r) as [o| |]; destruct (finalize v r) as [o'| |];
            cbn [ok_opt] in Hf; try discriminate Hf; cbn [obind ok_opt obo]; try reflexivity.
          injection Hf as <-. reflexivity.
        - replace (lenN (r :: r2 :: cur) =? 1) with false by (unfold lenN; cbn [length]; lia). reflexivity. }
    (* one more level *)
    rewrite HB.
    set (nx := match above with [] => [] | n :: _ => n end).
    set (ab := match above with [] => [] | _ :: a => a end).
    assert (Hlv1 : (if lenN (below ++ cur :: above) <? N.of_nat (length below) + 1 + 1
                    then Ok ((below ++ cur :: above) ++ [[]]) else Ok (below ++ cur :: above))
                   = Ok (E:=error) (below ++ cur :: nx :: ab)).
    { subst nx ab. destruct above as [|n a].
      - replace (lenN (below ++ [cur]) <? N.of_nat (length below) + 1 + 1) with true
          by (unfold lenN; rewrite app_length; cbn [length]; lia).
        rewrite <- app_assoc. reflexivity.
      - replace (lenN (below ++ cur :: n :: a) <? N.of_nat (length below) + 1 + 1) with false
          by (unfold lenN; rewrite app_length; cbn [length]; lia).
        reflexivity. }
    rewrite Hlv1. cbn [obind].
    replace (match above with [] => ([], []) | n :: a => (n, a) end) with (nx, ab) by (subst nx ab; destruct above; reflexivity).
    rewrite kt_odd_mod2.
    set (odd := negb (nc mod 2 =? 0)).
    set (cur' := if odd then cur ++ [zero_node v] else cur).
    set (nc2 := if odd then nc + 1 else nc).
    assert (Hst : (if odd then
                     obind (obind (gen_node_len v) (fun nl => Ok (repeat_byte x00 (N.to_nat nl)))) (fun z =>
                     obind (sub_chk site_gen (N.of_nat (length below) + 1) 1) (fun d =>
                     obind (vec_idx_p site_gen (below ++ cur :: nx :: ab) d) (fun e =>
                     Ok (vec_set (below ++ cur :: nx :: ab) d (e ++ [z]), nc + 1))))
                   else Ok (below ++ cur :: nx :: ab, nc))
                  = Ok (E:=error) (below ++ cur' :: nx :: ab, nc2)).
    { subst cur' nc2. destruct odd; [|reflexivity].
      rewrite kt_node_len. cbn [obind]. rewrite Nat2N.id. unfold sub_chk.
      replace (N.of_nat (length below) + 1 <? 1) with false by lia. cbn [obind].
      replace (N.of_nat (length below) + 1 - 1) with (N.of_nat (length below)) by lia.
      rewrite kt_idx_mid. cbn [obind]. rewrite kt_set_mid. reflexivity. }
    rewrite Hst. cbn [obind]. rewrite kt_range0.
    replace (Nat.div (if odd then S (N.to_nat nc) else N.to_nat nc) 2) with (N.to_nat (nc2 / 2))
      by (subst nc2; rewrite N2Nat.inj_div; destruct odd; [f_equal; lia|reflexivity]).
    match goal with |- ok_opt (obind (obind (obind (fold_res ?F _ _) _) _) _) = _ =>
      pose proof (kt_pair_loop below cur' ab F ltac:(body_eq) (N.to_nat (nc2 / 2)) 0%nat nx) as HP
    end.
    destruct (fold_res _ (map N.of_nat (seq 0 (N.to_nat (nc2 / 2)))) (below ++ cur' :: nx :: ab)) as [lv3| |];
      destruct (pair_hashes H v (N.to_nat (nc2 / 2)) 0 cur') as [hs| |];
      cbn [ok_opt obo] in HP; try discriminate HP; cbn [obind ok_opt obo]; try reflexivity.
    injection HP as ->.
    replace (N.of_nat (length below) + 1) with (N.of_nat (length (below ++ [cur']))) by (rewrite app_length; cbn [length]; lia).
    replace (below ++ cur' :: (nx ++ hs) :: ab) with ((below ++ [cur']) ++ (nx ++ hs) :: ab) by (rewrite <- app_assoc; reflexivity).
    apply IH.
  Qed.
End Root.

(* MerkleTree::compute_root as translated: the `while node_count > 1` loop over the in-place level
   vectors (push an empty level when needed, pad an odd level with the zero node, hash the pairs into
   the next level), the final `pop`, finalize_output — the model's compute_root, or both fail *)
Theorem gen_compute_root_model : forall H, HashLen H -> forall v lvs,
  ok_opt (gen_compute_root H v lvs)
  = obo (ok_opt (compute_root H (mktree lvs v))) (fun p => Some (snd p, levels (fst p))).
Proof.
  intros H HL v lvs. unfold gen_compute_root, compute_root. cbn [levels tver].
  destruct lvs as [|l0 above]; [reflexivity|].
  unfold vec_idx_p at 1 2. change (N.to_nat 0) with 0%nat. cbn [nth_error obind nth].
  destruct l0 as [|n0 l0]; [reflexivity|]. cbn [negb]. cbv zeta.
  match goal with |- ok_opt (obind (while_fuel ?f ?C ?B ?s) ?K) = _ =>
    pose proof (kt_root_loop H HL v C B ltac:(body_eq) ltac:(body_eq)
                  f [] (n0 :: l0) above (lenN (n0 :: l0))) as HLoop
  end.
  etransitivity; [exact HLoop|].
  unfold lenN. rewrite Nat2N.id.
  destruct (root_loop H (S (length (n0 :: l0))) v [] (n0 :: l0) above (length (n0 :: l0))) as [[lv out]| |];
    reflexivity.
Qed.

Lemma gen_reset_model : forall v lvs,
  omap (fun lv => mktree lv v) (gen_tree_reset lvs) = Ok (reset (mktree lvs v))
  /\ ok_opt (gen_tree_is_empty lvs) = ok_opt (tree_is_empty (mktree lvs v)).
Proof. intros. split; [apply gen_tree_reset_model|apply gen_tree_is_empty_model]. Qed.

(* ------------------------------------------------------------------ a whole batch on the translated code *)
Require Import RV.Spec.RefMerkle RV.Proofs.MerkleModel.

(* what Responder does with its tree in one batch, composed from the TRANSLATED functions:
   reset; push_leaf for every request; compute_root; get_paths for every position *)
Fixpoint gen_push_all (H : bytes -> bytes) (v : version) (lvs : list (list bytes)) (ls : list bytes)
  : res (list (list bytes)) :=
  match ls with
  | [] => Ok lvs
  | d :: r => obind (gen_push_leaf H v lvs d) (fun l' => gen_push_all H v l' r)
  end.

Fixpoint gen_all_paths (v : version) (lvs : list (list bytes)) (n i : nat) : res (list bytes) :=
  match n with
  | O => Ok []
  | S n' => obind (gen_get_paths v lvs (N.of_nat i)) (fun p =>
            obind (gen_all_paths v lvs n' (S i)) (fun r => Ok (p :: r)))
  end.

Definition gen_batch (H : bytes -> bytes) (v : version) (lvs : list (list bytes)) (ls : list bytes)
  : res (list (list bytes) * bytes * list bytes) :=
  obind (gen_tree_reset lvs) (fun l0 =>
  obind (gen_push_all H v l0 ls) (fun l1 =>
  obind (gen_compute_root H v l1) (fun '(root, l2) =>
  obind (gen_all_paths v l2 (length ls) 0) (fun ps => Ok (l2, root, ps))))).

Definition lift_u {A} (x : outcome unit A) : option A := match x with Ok a => Some a | _ => None end.

Lemma kt_push_leaf_tver : forall H t d t', push_leaf H t d = Ok t' -> t' = mktree (levels t') (tver t).
Proof.
  intros H t d t'. unfold push_leaf. destruct (levels t) as [|l0 r]; [discriminate|].
  intros Heq. injection Heq as <-. reflexivity.
Qed.

Lemma kt_push_all : forall H, HashLen H -> forall v ls lvs,
  ok_opt (gen_push_all H v lvs ls) = option_map levels (lift_u (push_all H (mktree lvs v) ls)).
Proof.
  intros H HL v. induction ls as [|d ls IH]; intros lvs; [reflexivity|].
  cbn [gen_push_all push_all]. pose proof (gen_push_leaf_model H HL v lvs d) as Hp.
  destruct (gen_push_leaf H v lvs d) as [l'| |]; destruct (push_leaf H (mktree lvs v) d) as [t'| |] eqn:Ept;
    cbn [omap ok_opt obind lift_u option_map] in *; try discriminate Hp; try reflexivity.
  injection Hp as Hp. apply kt_push_leaf_tver in Ept. cbn [tver] in Ept. rewrite Ept, <- Hp. apply IH.
Qed.

Lemma kt_all_paths : forall v lvs n i,
  ok_opt (gen_all_paths v lvs n i) = lift_u (all_paths (mktree lvs v) n i).
Proof.
  intros v lvs. induction n as [|n IH]; intros i; [reflexivity|].
  cbn [gen_all_paths all_paths]. pose proof (gen_get_paths_model v lvs (N.of_nat i)) as Hg. rewrite Nat2N.id in Hg.
  destruct (gen_get_paths v lvs (N.of_nat i)) as [p| |]; destruct (get_paths (mktree lvs v) i) as [p'| |];
    cbn [ok_opt obind lift_u] in *; try discriminate Hg; try reflexivity.
  injection Hg as <-. specialize (IH (S i)).
  destruct (gen_all_paths v lvs n (S i)) as [r| |]; destruct (all_paths (mktree lvs v) n (S i)) as [r'| |];
    cbn [ok_opt obind lift_u] in *; try discriminate IH; try reflexivity.
  injection IH as <-. reflexivity.
Qed.

Lemma kt_compute_root_tver : forall H t t' out, compute_root H t = Ok (t', out) -> t' = mktree (levels t') (tver t).
Proof.
  intros H t t' out. unfold compute_root. destruct (levels t) as [|l0 above]; [discriminate|].
  destruct l0 as [|n0 l0]; [discriminate|].
  destruct (root_loop H _ (tver t) [] (n0 :: l0) above _) as [[lv o]| |]; cbn [obind]; try discriminate.
  intros Heq. injection Heq as <- _. reflexivity.
Qed.

Lemma kt_tree_eta : forall t : tree, t = mktree (levels t) (tver t).
Proof. intros [l v]. reflexivity. Qed.

Lemma kt_push_all_tver : forall H ls t t', push_all H t ls = Ok t' -> tver t' = tver t.
Proof.
  intros H. induction ls as [|d ls IH]; intros t t' Hp; cbn [push_all] in Hp.
  - injection Hp as <-. reflexivity.
  - destruct (push_leaf H t d) as [t1| |] eqn:E1; cbn [obind] in Hp; try discriminate Hp.
    rewrite (IH _ _ Hp). apply kt_push_leaf_tver in E1. rewrite E1. reflexivity.
Qed.

(* C04 of the code as written: on ANY tree left behind by earlier batches (at least one level), the
   translated reset / push_leaf / compute_root / get_paths produce exactly the functional tree's root
   and, for every position, its path — for every batch of 1 .. 2^32 leaves *)
Theorem gen_batch_is_spec : forall H, HashLen H -> forall v lvs ls, lvs <> [] -> batch_ok ls ->
  exists lvs', gen_batch H v lvs ls = Ok (lvs', spec_root H v ls, spec_paths H v ls) /\ lvs' <> [].
Proof.
  intros H HL v lvs ls Hne Hok.
  destruct (model_is_spec H v (mktree lvs v) ls HL eq_refl Hne Hok) as [t' [Hb [Hv' Hne']]].
  exists (levels t'). split; [|exact Hne'].
  apply ks_ok_opt_some. unfold gen_batch, batch in *. cbn [gen_tree_reset obind].
  pose proof (kt_push_all H HL v ls (map (fun _ : list bytes => []) lvs)) as Hpa.
  change (mktree (map (fun _ : list bytes => []) lvs) v) with (reset (mktree lvs v)) in Hpa.
  destruct (push_all H (reset (mktree lvs v)) ls) as [t1| |] eqn:Ep; cbn [obind] in Hb; try discriminate Hb.
  destruct (gen_push_all H v (map (fun _ : list bytes => []) lvs) ls) as [l1| |]; cbn [ok_opt lift_u option_map] in Hpa; try discriminate Hpa.
  injection Hpa as ->. cbn [obind].
  assert (Ht1 : t1 = mktree (levels t1) v).
  { rewrite (kt_tree_eta t1) at 1. f_equal. apply (kt_push_all_tver H ls _ _ Ep). }
  pose proof (gen_compute_root_model H HL v (levels t1)) as Hc. rewrite <- Ht1 in Hc.
  destruct (compute_root H t1) as [[t2 root]| |] eqn:Ec; cbn [obind] in Hb; try discriminate Hb.
  destruct (gen_compute_root H v (levels t1)) as [[root' l2]| |]; cbn [ok_opt obo fst snd] in Hc; try discriminate Hc.
  injection Hc as -> ->. cbn [obind].
  assert (Ht2 : t2 = mktree (levels t2) v).
  { pose proof (kt_compute_root_tver H t1 t2 root Ec) as Ht. rewrite Ht1 in Ht. cbn [tver] in Ht. exact Ht. }
  pose proof (kt_all_paths v (levels t2) (length ls) 0) as Hap. rewrite <- Ht2 in Hap.
  destruct (all_paths t2 (length ls) 0) as [ps| |]; cbn [obind] in Hb; try discriminate Hb.
  destruct (gen_all_paths v (levels t2) (length ls) 0) as [ps'| |]; cbn [ok_opt lift_u] in Hap; try discriminate Hap.
  injection Hap as ->. cbn [obind ok_opt].
  injection Hb as <- <- <-. reflexivity.
Qed.
