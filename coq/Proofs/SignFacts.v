(* SignFacts.v — C13: the incremental signer / verifier equal the one-shot primitives *)
Require Import RV.Model.Bytes RV.Model.Sign.

Section SignFacts.
  Variable ed_sign : bytes -> bytes -> bytes.
  Variable ed_verify : bytes -> bytes -> bytes -> bool.
  Variable ed_point : bytes -> bool.

  Lemma run_signer_gen : forall ops seed buf,
    run_signer ed_sign (mksigner seed buf) ops = map (ed_sign seed) (messages_from buf ops).
  Proof.
    induction ops as [|op ops IH]; intros seed buf; cbn [run_signer messages_from map]; [reflexivity|].
    destruct op as [d|].
    - unfold signer_update. cbn [sg_seed sg_buf]. apply IH.
    - unfold signer_sign. cbn [sg_seed sg_buf map]. f_equal. apply IH.
  Qed.

  (* every signature is the one-shot signature of the concatenated chunks of its own message *)
  Lemma signer_correct : forall seed s ops,
    signer_from_seed seed = Ok s ->
    run_signer ed_sign s ops = map (ed_sign seed) (messages ops).
  Proof.
    intros seed s ops Hs. unfold signer_from_seed in Hs.
    destruct (length seed =? 32)%nat; [|discriminate]. injection Hs as <-.
    apply run_signer_gen.
  Qed.

  (* no carry-over: what follows a Sig does not depend on anything before it *)
  Lemma signer_no_carry_over : forall seed buf pre post,
    run_signer ed_sign (mksigner seed buf) (pre ++ Sig :: post)
    = run_signer ed_sign (mksigner seed buf) (pre ++ [Sig]) ++ run_signer ed_sign (mksigner seed []) post.
  Proof.
    intros seed buf pre. revert buf.
    induction pre as [|op pre IH]; intros buf post.
    - cbn [app run_signer]. unfold signer_sign. cbn [sg_seed sg_buf app]. reflexivity.
    - cbn [app run_signer]. destruct op as [d|].
      + unfold signer_update. cbn [sg_seed sg_buf]. apply IH.
      + unfold signer_sign. cbn [sg_seed sg_buf]. rewrite IH. reflexivity.
  Qed.

  Lemma fold_update : forall chunks pk buf,
    fold_left verifier_update chunks (mkverifier pk buf) = mkverifier pk (buf ++ concat chunks).
  Proof.
    induction chunks as [|c chunks IH]; intros pk buf; cbn [fold_left concat].
    - rewrite app_nil_r. reflexivity.
    - unfold verifier_update at 2. cbn [vf_pk vf_buf]. rewrite IH, app_assoc. reflexivity.
  Qed.

  (* the verifier accepts exactly when a direct verification of the concatenated chunks does;
     it panics exactly on a key that is not a 32-byte point or a signature that is not 64 bytes *)
  Lemma verifier_correct : forall pk chunks sig,
    run_verifier ed_verify ed_point pk chunks sig =
      if (length pk =? 32)%nat && ed_point pk then
        if (length sig =? 64)%nat then Ok (ed_verify pk (concat chunks) sig)
        else Panic site_sig_len
      else Panic site_pubkey.
  Proof.
    intros pk chunks sig. unfold run_verifier, verifier_new.
    destruct ((length pk =? 32)%nat && ed_point pk); [|reflexivity].
    cbn [obind]. rewrite fold_update. unfold verifier_verify. cbn [vf_pk vf_buf app]. reflexivity.
  Qed.
End SignFacts.
