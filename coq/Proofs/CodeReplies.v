(* CodeReplies.v — C02 of the code as written: every datagram the TRANSLATED process_events hands to
   the socket (fault injection off) is accepted by the independent verifier for the request it answers. *)
Require Import RV.Model.Bytes RV.Gen.Tables RV.Model.Tag RV.Model.Message RV.Model.Merkle RV.Model.Request
        RV.Model.Keys RV.Model.Server RV.Model.GenSupport RV.Gen.Code.
Require Import RV.Spec.MerkleGoals RV.Spec.RefVerify RV.Spec.ServerGoals.
Require Import RV.Proofs.ReplyFacts RV.Proofs.ServerCorollaries RV.Proofs.CodeLib RV.Proofs.CodeRespond.
From Coq Require Import ZArith Lia List.
Import ListNotations.
Local Open Scope N_scope.

Section Replies.
  Variable H : bytes -> bytes.
  Variable ed_pk : bytes -> bytes.
  Variable ed_sign : bytes -> bytes -> bytes.
  Variable ed_verify : bytes -> bytes -> bytes -> bool.
  Hypothesis HL : HashLen H.
  Hypothesis HP : PkLen ed_pk.
  Hypothesis HS : SigLen ed_sign.
  Hypothesis HC : SigCorrect ed_pk ed_sign ed_verify.

  (* what "a good reply" means: it answers an accepted request of its batch, goes to that request's
     source, verifies for it under the long-term key, and is no longer than it *)
  Definition good_reply (srv lt : bytes) (e : emission) : Prop :=
    exists ds v r, In r (accepted srv v ds)
      /\ em_dest e = req_src r
      /\ wellformed srv (req_dgram r) = Some (req_nonce r, v)
      /\ verify_response H ed_verify v (ed_pk lt) (req_dgram r) (em_bytes e) = true
      /\ (length (em_bytes e) <= length (req_dgram r))%nat.

  Lemma kr_drain_good : forall fuel n srv lt oi oc clk k queue,
    (n <= 64)%nat -> (forall j, fst (clk j) < two64) ->
    Forall (good_reply srv lt) (spec_drain_sent H ed_pk ed_sign fuel n srv lt oi oc clk k queue).
  Proof.
    induction fuel as [|f IH]; intros n srv lt oi oc clk k queue Hn Hclk; [constructor|].
    cbn [spec_drain_sent]. apply Forall_app. split.
    - apply Forall_forall. intros e He.
      assert (Hlen : (length (firstn n queue) <= 64)%nat) by (rewrite firstn_length; lia).
      destruct (batch_emission H ed_pk ed_sign ed_verify srv lt oi oc (clk k) (firstn n queue) e HL HP HS HC Hlen (Hclk k) He)
        as [v [r Hr]].
      exists (firstn n queue), v, r. exact Hr.
    - destruct (length queue <? n)%nat; [constructor|]. apply IH; assumption.
  Qed.

  Theorem gen_replies_verify :
    forall cfg lt oi oc s queue clk coins on_health on_status buf st events ri' rc' out st',
      SInv H ed_pk ed_sign cfg lt oi oc s -> fault_pct cfg = 0 -> sends_ok cfg ->
      (1 <= batch_size cfg)%nat -> (batch_size cfg <= 64)%nat -> (forall j, fst (clk j) < two64) ->
      ok_opt (omap (fun '(sock, _, ri', rc', st', _, _) => (ri', rc', snd sock, st'))
         (gen_process_events H ed_sign cfg clk [EvMessage] on_health on_status (N.of_nat (batch_size cfg))
            (queue, []) buf (ltk_srv_value H ed_pk lt) (s_ietf s) (s_classic s) st coins 0%nat events))
      = Some (ri', rc', out, st') ->
      Forall (good_reply (ltk_srv_value H ed_pk lt) lt) out.
  Proof.
    intros cfg lt oi oc s queue clk coins on_health on_status buf st events ri' rc' out st'
           Hinv Hf Hsend Hb1 Hb2 Hclk Hgen.
    destruct (gen_process_events_spec H ed_pk ed_sign HL HP HS cfg lt oi oc s queue clk coins on_health on_status
                [] buf st events Hinv Hf Hsend Hb1 ltac:(lia)) as [ri2 [rc2 Hspec]].
    cbv zeta in Hspec. rewrite Hspec in Hgen. injection Hgen as _ _ <- _.
    exact (kr_drain_good (S (length queue)) (batch_size cfg) (ltk_srv_value H ed_pk lt) lt oi oc clk 0%nat queue Hb2 Hclk).
  Qed.
End Replies.
