(* CodePerClient.v — the eight recording operations of src/stats/per_client.rs (and their shared guard
   too_many_entries) as translated on this run, against Model/Stats.v pc_step. *)
Require Import RV.Model.Bytes RV.Gen.Tables RV.Model.Tag RV.Model.Message RV.Model.Server RV.Model.Stats
        RV.Model.GenSupport RV.Gen.Code.
From Coq Require Import NArith List Lia ZifyN ZifyNat ZifyBool.
Import ListNotations.
Local Open Scope N_scope.

(* ---- the entry as a place *)
Lemma cm_put_get0 : forall m a f, cm_put m a (f (cm_get0 m a)) = cm_upd m a f.
Proof.
  intros m a f. unfold cm_put, cm_get0. induction m as [|[b c] r IH]; cbn [cm_get cm_upd]; [reflexivity|].
  destruct (a =? b); [reflexivity|]. rewrite IH. reflexivity.
Qed.

Lemma cm_upd_upd : forall m a f g, cm_upd (cm_upd m a f) a g = cm_upd m a (fun c => g (f c)).
Proof.
  intros m a f g. induction m as [|[b c] r IH]; cbn [cm_upd].
  - rewrite N.eqb_refl. reflexivity.
  - destruct (a =? b) eqn:E; cbn [cm_upd]; rewrite E; [reflexivity|]. rewrite IH. reflexivity.
Qed.

(* the translated add_* method that records event e *)
Definition gen_pc_record (clients : cmap) (ov mx : N) (e : sev) : res (cmap * N) :=
  match e with
  | SIetfRequest a => gen_pc_add_ietf_request clients ov mx a
  | SClassicRequest a => gen_pc_add_classic_request clients ov mx a
  | SInvalidRequest a => gen_pc_add_invalid_request clients ov mx a tt
  | SHealthCheck a => gen_pc_add_health_check clients ov mx a
  | SRfcResponse a n => gen_pc_add_rfc_response clients ov mx a n
  | SClassicResponse a n => gen_pc_add_classic_response clients ov mx a n
  | SFailedSend a => gen_pc_add_failed_send_attempt clients ov mx a
  | SRetriedSend a => gen_pc_add_retried_send_attempt clients ov mx a
  end.

Lemma gen_pc_too_many_entries_model : forall clients ov mx,
  gen_pc_too_many_entries clients ov mx
  = Ok ((N.to_nat mx <=? length clients)%nat, if (N.to_nat mx <=? length clients)%nat then ov + 1 else ov).
Proof.
  intros clients ov mx. unfold gen_pc_too_many_entries, lenN.
  assert (H : (mx <=? N.of_nat (length clients)) = (N.to_nat mx <=? length clients)%nat) by lia.
  rewrite H. destruct (N.to_nat mx <=? length clients)%nat; reflexivity.
Qed.

(* every recording operation is pc_step: the guard first — a full map counts an overflow and drops the event,
   also for an address that is already tracked — else exactly the event's counter(s) of that client's entry
   are bumped, a fresh entry being made when the address is new *)
Theorem gen_pc_record_model : forall clients ov mx e,
  gen_pc_record clients ov mx e
  = Ok (let st := fst (pc_step (mkpc clients ov (N.to_nat mx)) e) in (pc_clients st, pc_overflows st)).
Proof.
  intros clients ov mx e. unfold pc_step. cbn [pc_max pc_clients pc_overflows].
  destruct e as [a|a|a|a n|a n|a|a|a]; cbn [gen_pc_record];
    unfold gen_pc_add_ietf_request, gen_pc_add_classic_request, gen_pc_add_invalid_request, gen_pc_add_health_check,
      gen_pc_add_rfc_response, gen_pc_add_classic_response, gen_pc_add_failed_send_attempt, gen_pc_add_retried_send_attempt;
    rewrite gen_pc_too_many_entries_model; cbn [obind];
    destruct (N.to_nat mx <=? length clients)%nat; cbn [fst pc_clients pc_overflows ev_addr]; try reflexivity;
    rewrite ?(cm_put_get0 clients a (fun c => cs_set_rfc_req c (c_rfc_req c + 1))),
            ?(cm_put_get0 clients a (fun c => cs_set_classic_req c (c_classic_req c + 1))),
            ?(cm_put_get0 clients a (fun c => cs_set_invalid c (c_invalid c + 1))),
            ?(cm_put_get0 clients a (fun c => cs_set_health c (c_health c + 1))),
            ?(cm_put_get0 clients a (fun c => cs_set_rfc_resp c (c_rfc_resp c + 1))),
            ?(cm_put_get0 clients a (fun c => cs_set_classic_resp c (c_classic_resp c + 1))),
            ?(cm_put_get0 clients a (fun c => cs_set_failed c (c_failed c + 1))),
            ?(cm_put_get0 clients a (fun c => cs_set_retried c (c_retried c + 1)));
    try reflexivity.
  - (* rfc response: two writes to the same entry *)
    match goal with |- context [cm_put ?m a (cs_set_bytes (cm_get0 ?m a) (c_bytes (cm_get0 ?m a) + n))] =>
      rewrite (cm_put_get0 m a (fun c => cs_set_bytes c (c_bytes c + n))) end.
    rewrite cm_upd_upd. reflexivity.
  - match goal with |- context [cm_put ?m a (cs_set_bytes (cm_get0 ?m a) (c_bytes (cm_get0 ?m a) + n))] =>
      rewrite (cm_put_get0 m a (fun c => cs_set_bytes c (c_bytes c + n))) end.
    rewrite cm_upd_upd. reflexivity.
Qed.

(* so a whole history through the translated operations is pc_run *)
Fixpoint gen_pc_run (clients : cmap) (ov mx : N) (evs : list sev) : res (cmap * N) :=
  match evs with
  | [] => Ok (clients, ov)
  | e :: r => obind (gen_pc_record clients ov mx e) (fun '(c', ov') => gen_pc_run c' ov' mx r)
  end.

Theorem gen_pc_run_model : forall evs clients ov mx,
  gen_pc_run clients ov mx evs
  = Ok (let st := fst (pc_run (mkpc clients ov (N.to_nat mx)) evs) in (pc_clients st, pc_overflows st)).
Proof.
  induction evs as [|e r IH]; intros clients ov mx; cbn [gen_pc_run pc_run]; [reflexivity|].
  rewrite gen_pc_record_model. cbn [obind].
  destruct (pc_step (mkpc clients ov (N.to_nat mx)) e) as [st1 b] eqn:E1. cbn [fst].
  assert (Hm : pc_max st1 = N.to_nat mx).
  { unfold pc_step in E1. cbn [pc_max pc_clients pc_overflows] in E1.
    destruct (N.to_nat mx <=? length clients)%nat; injection E1 as <- _; reflexivity. }
  rewrite IH. destruct st1 as [c1 o1 m1]. cbn [pc_max] in Hm. subst m1. cbn [pc_clients pc_overflows].
  destruct (pc_run (mkpc c1 o1 (N.to_nat mx)) r) as [st2 bs]. reflexivity.
Qed.
