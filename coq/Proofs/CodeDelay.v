(* CodeDelay.v — Server::compute_delay as translated on this run (the jittered re-arming delay of the
   statistics timer): Durations are nanoseconds, the generator is the stream of its 32-bit outputs. *)
Require Import RV.Model.Bytes RV.Gen.Tables RV.Model.Tag RV.Model.Message RV.Model.GenSupport RV.Gen.Code.
From Coq Require Import NArith List Lia ZifyN ZifyNat ZifyBool.
Import ListNotations.
Local Open Scope N_scope.

Definition low_byte (v : N) : N := N.land v 255.
Definition second : N := 1000000000.
Definition ms : N := 1000000.

(* a sub-second base is used as it is, and the generator is not touched *)
Theorem gen_compute_delay_small : forall base rng, base < second ->
  gen_compute_delay base rng = Ok (base, rng).
Proof.
  intros base rng Hb. unfold gen_compute_delay.
  assert (H : (base / 1000000000 <? 1) = true).
  { apply N.ltb_lt. unfold second in Hb. assert (base / 1000000000 = 0) by (apply N.div_small; exact Hb). lia. }
  rewrite H. reflexivity.
Qed.

Lemma low_byte_lt : forall v, low_byte v < 256.
Proof.
  intro v. unfold low_byte. change 255 with (N.ones 8). rewrite N.land_ones.
  apply N.mod_lt. discriminate.
Qed.

(* the draw loop: outputs whose low byte is 0 are skipped, the first other one decides *)
Lemma draw_loop : forall (zs : list N) v rest fuel,
  (forall z, In z zs -> low_byte z = 0) -> low_byte v <> 0 -> (length zs < fuel)%nat ->
  while_fuel (S fuel) (fun '(j, _) => Ok (j =? 0))
    (fun '(_, r) => Ok (N.land (hd 0 r) 255, tl r)) (0, zs ++ v :: rest)
  = Ok (low_byte v, rest).
Proof.
  induction zs as [|z zs IH]; intros v rest fuel Hz Hv Hf.
  - cbn [while_fuel obind app hd tl]. change (0 =? 0) with true. cbn iota.
    destruct fuel as [|fuel]; [cbn [length] in Hf; lia|].
    cbn [while_fuel obind]. fold (low_byte v).
    replace (low_byte v =? 0) with false by (symmetry; apply N.eqb_neq; exact Hv). reflexivity.
  - cbn [while_fuel obind app hd tl]. change (0 =? 0) with true. cbn iota.
    fold (low_byte z). rewrite (Hz z (or_introl eq_refl)).
    destruct fuel as [|fuel]; [cbn [length] in Hf; lia|].
    apply IH; [intros z' Hz'; apply Hz; right; exact Hz'|exact Hv|cbn [length] in Hf; lia].
Qed.

(* a base of at least one second: the first generator output with a non-zero low byte j gives base - j ms
   (j odd) or base + j ms (j even); no subtraction underflows, no panic *)
Theorem gen_compute_delay_model : forall base zs v rest,
  second <= base -> (forall z, In z zs -> low_byte z = 0) -> low_byte v <> 0 ->
  gen_compute_delay base (zs ++ v :: rest)
  = Ok (if N.land (low_byte v) 1 =? 1 then base - low_byte v * ms else base + low_byte v * ms, rest).
Proof.
  intros base zs v rest Hb Hz Hv. unfold gen_compute_delay.
  assert (H : (base / 1000000000 <? 1) = false).
  { apply N.ltb_ge. unfold second in Hb. apply N.div_le_lower_bound; lia. }
  rewrite H.
  rewrite (draw_loop zs v rest (length (zs ++ v :: rest)) Hz Hv) by (rewrite app_length; cbn [length]; lia).
  cbn [obind]. pose proof (low_byte_lt v) as Hl.
  destruct (N.land (low_byte v) 1 =? 1); [|reflexivity].
  unfold sub_chk, ms.
  replace (base <? low_byte v * 1000000) with false by (symmetry; apply N.ltb_ge; unfold second in Hb; lia).
  reflexivity.
Qed.

(* the timer is always re-armed with a positive delay within 255 ms of the base, and never the base itself *)
Corollary gen_compute_delay_bounds : forall base zs v rest d r,
  second <= base -> (forall z, In z zs -> low_byte z = 0) -> low_byte v <> 0 ->
  gen_compute_delay base (zs ++ v :: rest) = Ok (d, r) ->
  0 < d /\ base - 255 * ms <= d <= base + 255 * ms /\ d <> base /\ r = rest.
Proof.
  intros base zs v rest d r Hb Hz Hv H. rewrite (gen_compute_delay_model base zs v rest Hb Hz Hv) in H.
  injection H as <- <-. pose proof (low_byte_lt v) as Hl. unfold second, ms in *.
  destruct (N.land (low_byte v) 1 =? 1); repeat split; lia.
Qed.
