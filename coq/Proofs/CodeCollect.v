(* CodeCollect.v — Server::collect_requests as translated from src/server.rs on this run, against the model's
   `collect`. The UDP socket is the queue of waiting datagrams (GenSupport.sock_recv: WouldBlock on an
   empty queue), the statistics recorder the list of recorded events. *)
Require Import RV.Model.Bytes RV.Gen.Tables RV.Model.Tag RV.Model.Message RV.Model.Merkle RV.Model.Request
        RV.Model.Keys RV.Model.Server RV.Model.GenSupport RV.Gen.Code.
Require Import RV.Proofs.BytesFacts RV.Proofs.CodeLib.
From Coq Require Import ZArith Lia ZifyN ZifyBool ZifyNat List.
Import ListNotations.
Local Open Scope N_scope.
Require Import RV.Proofs.CodeRequest.

Lemma ks_slice_prefix : forall (d rest : bytes),
  slice_n (E:=error) site_gen (d ++ rest) 0 (lenN d) = Ok d.
Proof.
  intros d rest. unfold slice_n, slice, lenN. change (N.to_nat 0) with 0%nat. rewrite Nat2N.id.
  rewrite app_length. replace ((length d <? 0)%nat || (length d + length rest <? length d)%nat) with false by lia.
  cbn [skipn]. rewrite Nat.sub_0_r, firstn_app, Nat.sub_diag, firstn_all. cbn [firstn]. rewrite app_nil_r. reflexivity.
Qed.

Section Collect.
  Variable H : bytes -> bytes.
  Variable srv : bytes.
  Variable cfg : config.

  (* the body of the translated loop, as it stands in Gen/Code.v after unfolding *)
  Definition keep5 (x : res ((list dgram * bytes * responder * list sev * responder) * option bool))
    : res ((list dgram * responder * list sev * responder) * option bool) :=
    omap (fun '((q, _, ri, st, rc), o) => ((q, ri, st, rc), o)) x.

  Lemma ks_collect_loop : forall (F : _ -> N -> _),
    (forall s i, F s i =
       (let '(q0, b0, ri0, st0, rc0) := s in
        let '(sc, (q1, b1)) := sock_recv q0 b0 in
        match sc with
        | Ok (num_bytes, src_addr) =>
            obind (match gen_nonce_from_request b1 num_bytes srv with
                   | Ok (nonce, RfcDraft13) =>
                       obind (slice_n site_gen b1 0 num_bytes) (fun rb =>
                       obind (lift (responder_add H ri0 rb nonce src_addr)) (fun ri1 =>
                       Ok (ri1, st0 ++ [SIetfRequest src_addr], rc0)))
                   | Ok (nonce, Google) =>
                       obind (lift (responder_add H rc0 nonce nonce src_addr)) (fun rc1 =>
                       Ok (ri0, st0 ++ [SClassicRequest src_addr], rc1))
                   | Err _ => Ok (ri0, st0 ++ [SInvalidRequest src_addr], rc0)
                   | Panic s => Panic s
                   end) (fun '(ri2, st2, rc2) => Ok ((q1, b1, ri2, st2, rc2), None))
        | Err e =>
            match e with
            | WouldBlock => obind (Ok true) (fun r => Ok ((q1, b1, ri0, st0, rc0), Some r))
            | _ => obind (Ok false) (fun r => Ok ((q1, b1, ri0, st0, rc0), Some r))
            end
        | Panic s => Panic s
        end)) ->
    forall (l : list N) q buf ri rc st i,
    keep5 (loop_sr F l (q, buf, ri, st, rc))
    = obind (collect H srv cfg ri rc (firstn (length l) q) i) (fun '(ri', rc', sts, _) =>
        Ok ((skipn (length l) q, ri', st ++ sts, rc'),
            if (length q <? length l)%nat then Some true else None)).
  Proof.
    intros F HF. induction l as [|x l IH]; intros q buf ri rc st i.
    - cbn [loop_sr length firstn skipn collect obind keep5 omap]. rewrite app_nil_r.
      replace (length q <? 0)%nat with false by lia. reflexivity.
    - cbn [loop_sr length]. rewrite HF.
      destruct q as [|[a d] q].
      + cbn [sock_recv obind firstn skipn collect keep5 omap length Nat.ltb Nat.leb]. rewrite app_nil_r. reflexivity.
      + cbn [sock_recv firstn skipn collect length].
        rewrite gen_nonce_from_request_model.
        replace (S (length q) <? S (length l))%nat with (length q <? length l)%nat by lia.
        destruct (classify srv d) as [[nonce [|]]|e|s]; cbn [obind].
        * (* classic *)
          destruct (lift (responder_add H rc nonce nonce a)) as [rc1| |]; cbn [obind keep5 omap]; try reflexivity.
          fold (keep5 (loop_sr F l (q, d ++ skipn (length d) buf, ri, st ++ [SClassicRequest a], rc1))).
          rewrite (IH q _ ri rc1 _ (S i)).
          destruct (collect H srv cfg ri rc1 (firstn (length l) q) (S i)) as [[[[ri' rc'] sts] lg]| |]; cbn [obind]; try reflexivity.
          rewrite <- app_assoc. reflexivity.
        * (* IETF *)
          rewrite ks_slice_prefix. cbn [obind].
          destruct (lift (responder_add H ri d nonce a)) as [ri1| |]; cbn [obind keep5 omap]; try reflexivity.
          fold (keep5 (loop_sr F l (q, d ++ skipn (length d) buf, ri1, st ++ [SIetfRequest a], rc))).
          rewrite (IH q _ ri1 rc _ (S i)).
          destruct (collect H srv cfg ri1 rc (firstn (length l) q) (S i)) as [[[[ri' rc'] sts] lg]| |]; cbn [obind]; try reflexivity.
          rewrite <- app_assoc. reflexivity.
        * (* rejected *)
          fold (keep5 (loop_sr F l (q, d ++ skipn (length d) buf, ri, st ++ [SInvalidRequest a], rc))).
          rewrite (IH q _ ri rc _ (S i)).
          destruct (collect H srv cfg ri rc (firstn (length l) q) (S i)) as [[[[ri' rc'] sts] lg]| |]; cbn [obind]; try reflexivity.
          rewrite <- app_assoc. reflexivity.
        * reflexivity.
  Qed.
End Collect.

(* Server::collect_requests as translated: reads at most batch_size datagrams off the queue, hands
   each to the translated classifier, queues the accepted ones on the responder of their protocol
   and records one statistics event per datagram — exactly the model's `collect` on the datagrams
   read; it reports "socket now empty" exactly when fewer than batch_size were waiting. The receive
   buffer (stale bytes after the datagram) is the only component not compared. *)
Theorem gen_collect_requests_model : forall H srv cfg n q buf ri rc st i,
  omap (fun '(b, (q', _, ri', rc', st')) => (b, q', ri', rc', st'))
       (gen_collect_requests H (N.of_nat n) q buf srv ri rc st)
  = obind (collect H srv cfg ri rc (firstn n q) i) (fun '(ri', rc', sts, _) =>
      Ok ((length q <? n)%nat, skipn n q, ri', rc', st ++ sts)).
Proof.
  intros H srv cfg n q buf ri rc st i. unfold gen_collect_requests.
  match goal with |- omap _ (obind (loop_sr ?F ?l ?s) ?K) = _ =>
    pose proof (ks_collect_loop H srv cfg F) as HL; set (FF := F) in *
  end.
  assert (HF : forall s i0, FF s i0 = FF s i0) by reflexivity.
  specialize (HL ltac:(body_eq)).
  specialize (HL (range_n 0 (N.of_nat n)) q buf ri rc st i).
  assert (Hlen : length (range_n 0 (N.of_nat n)) = n).
  { unfold range_n. rewrite map_length, seq_length. lia. }
  rewrite Hlen in HL.
  destruct (loop_sr FF (range_n 0 (N.of_nat n)) (q, buf, ri, st, rc)) as [[[[[[q' b'] ri'] st'] rc'] o]| |];
    cbn [keep5 omap obind] in *.
  - destruct (collect H srv cfg ri rc (firstn n q) i) as [[[[ri2 rc2] sts] lg]| |]; cbn [obind] in *; try discriminate.
    injection HL as -> -> -> -> ->.
    destruct (length q <? n)%nat; reflexivity.
  - destruct (collect H srv cfg ri rc (firstn n q) i) as [[[[ri2 rc2] sts] lg]| |]; cbn [obind] in *; try discriminate.
    injection HL as ->. reflexivity.
  - destruct (collect H srv cfg ri rc (firstn n q) i) as [[[[ri2 rc2] sts] lg]| |]; cbn [obind] in *; try discriminate.
    injection HL as ->. reflexivity.
Qed.
