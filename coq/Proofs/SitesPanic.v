(* SitesPanic.v — every panic-capable expression of today's scan of the modelled files is covered by the reviewed map (C08) *)
From Coq Require Import List String Bool.
Require Import RV.Gen.Sites RV.Model.SiteMap RV.Proofs.SitesCommon.
Import ListNotations.

Lemma panic_sites_covered_bool : forallb (covered panic_site_map) panic_sites = true.
Proof. vm_compute. reflexivity. Qed.

(* every panic-capable expression of today's modelled files has been reviewed *)
Lemma panic_sites_covered : forall s, In s panic_sites -> exists note, In (s, note) panic_site_map.
Proof.
  intros s Hin. pose proof panic_sites_covered_bool as Hb.
  rewrite forallb_forall in Hb. specialize (Hb s Hin). unfold covered in Hb.
  apply existsb_exists in Hb. destruct Hb as [[k note] [Hk He]]. cbn [fst] in He.
  apply site_eqb_eq in He. subst k. exists note. exact Hk.
Qed.

