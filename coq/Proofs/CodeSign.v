(* CodeSign.v — src/sign.rs (MsgSigner, MsgVerifier) as translated on this run, against Model/Sign.v.
   The Ed25519 primitives are parameters; what is translated is the buffering discipline:
   update appends, sign signs the buffer and clears it, verify checks the buffer. *)
Require Import RV.Model.Bytes RV.Gen.Tables RV.Model.Tag RV.Model.Message RV.Model.Sign RV.Model.GenSupport RV.Gen.Code.
Require Import RV.Proofs.BytesFacts RV.Proofs.CodeLib.
From Coq Require Import ZArith Lia ZifyN ZifyBool ZifyNat List.
Import ListNotations.
Local Open Scope N_scope.

Definition ok_u {A} (x : outcome unit A) : option A := match x with Ok a => Some a | _ => None end.

Lemma gen_signer_from_seed_model : forall seed,
  ok_opt (gen_signer_from_seed seed) = option_map (fun s => (sg_seed s, sg_buf s)) (ok_u (signer_from_seed seed)).
Proof.
  intros seed. unfold gen_signer_from_seed, signer_from_seed.
  replace (lenN seed =? 32) with (length seed =? 32)%nat by (unfold lenN; lia).
  destruct (length seed =? 32)%nat; reflexivity.
Qed.

Lemma gen_signer_update_model : forall s d,
  gen_signer_update (sg_buf s) d = Ok (sg_buf (signer_update s d)).
Proof. reflexivity. Qed.

Lemma gen_signer_sign_model : forall ed_sign s,
  gen_signer_sign ed_sign (sg_seed s) (sg_buf s)
  = Ok (fst (signer_sign ed_sign s), sg_buf (snd (signer_sign ed_sign s))).
Proof. reflexivity. Qed.

Lemma gen_verifier_new_model : forall ed_point pk,
  ok_opt (gen_verifier_new ed_point pk)
  = option_map (fun v => (vf_pk v, vf_buf v)) (ok_u (verifier_new ed_point pk)).
Proof.
  intros ed_point pk. unfold gen_verifier_new, verifier_new.
  replace (lenN pk =? 32) with (length pk =? 32)%nat by (unfold lenN; lia).
  destruct (length pk =? 32)%nat; cbn [unwrap_p obind andb]; [|reflexivity].
  destruct (ed_point pk); reflexivity.
Qed.

Lemma gen_verifier_update_model : forall v d,
  gen_verifier_update (vf_buf v) d = Ok (vf_buf (verifier_update v d)).
Proof. reflexivity. Qed.

Lemma gen_verifier_verify_model : forall ed_verify v sig,
  ok_opt (gen_verifier_verify ed_verify (vf_pk v) (vf_buf v) sig) = ok_u (verifier_verify ed_verify v sig).
Proof.
  intros ed_verify v sig. unfold gen_verifier_verify, verifier_verify.
  replace (lenN sig =? 64) with (length sig =? 64)%nat by (unfold lenN; lia).
  destruct (length sig =? 64)%nat; reflexivity.
Qed.

Lemma gen_sign_model : forall ed_sign ed_verify ed_point,
  (forall seed, ok_opt (gen_signer_from_seed seed)
                = option_map (fun s => (sg_seed s, sg_buf s)) (ok_u (signer_from_seed seed)))
  /\ (forall s d, gen_signer_update (sg_buf s) d = Ok (sg_buf (signer_update s d)))
  /\ (forall s, gen_signer_sign ed_sign (sg_seed s) (sg_buf s)
                = Ok (fst (signer_sign ed_sign s), sg_buf (snd (signer_sign ed_sign s))))
  /\ (forall pk, ok_opt (gen_verifier_new ed_point pk)
                 = option_map (fun v => (vf_pk v, vf_buf v)) (ok_u (verifier_new ed_point pk)))
  /\ (forall v d, gen_verifier_update (vf_buf v) d = Ok (vf_buf (verifier_update v d)))
  /\ (forall v sig, ok_opt (gen_verifier_verify ed_verify (vf_pk v) (vf_buf v) sig)
                    = ok_u (verifier_verify ed_verify v sig)).
Proof.
  intros. repeat split.
  - apply gen_signer_from_seed_model.
  - apply gen_verifier_new_model.
  - apply gen_verifier_verify_model.
Qed.
