(* CodeMsgDec.v — RtMessage::from_bytes / single_tag_message / multi_tag_message as translated from
   src/message.rs on this run, against Model/Message.v *)
Require Import RV.Model.Bytes RV.Gen.Tables RV.Model.Tag RV.Model.Message RV.Model.GenSupport RV.Gen.Code.
Require Import RV.Proofs.TagFacts RV.Proofs.BytesFacts RV.Proofs.CodeLib.
From Coq Require Import ZArith Lia ZifyN ZifyBool ZifyNat List.
Import ListNotations.
Ltac Zify.zify_post_hook ::= Z.div_mod_to_equations.
Local Open Scope N_scope.

(* ------------------------------------------------------------------ from_bytes *)
Require Import RV.Proofs.CodecDecode.

Lemma km_rest_adv : forall d p k, cur_rest (d, p + k) = skipn (N.to_nat k) (cur_rest (d, p)).
Proof.
  intros. unfold cur_rest. cbn [fst snd]. rewrite skipn_skipn'. f_equal. lia.
Qed.

Lemma km_rd32_firstn : forall r, (4 <= length r)%nat -> rd32 r = rd32 (firstn 4 r).
Proof.
  intros r H. destruct r as [|a [|b [|c [|d r]]]]; cbn [length] in H; try lia. reflexivity.
Qed.

(* two loop bodies that agree on every state and element give the same fold (no extensionality axiom) *)
Lemma km_fold_ext : forall {S A} (F G : S -> A -> res S), (forall s x, F s x = G s x) ->
  forall l s, fold_res F l s = fold_res G l s.
Proof.
  intros S A F G HFG. induction l as [|x l IH]; intros s; cbn [fold_res]; [reflexivity|].
  rewrite HFG. destruct (G s x) as [s'| |]; cbn [obind]; [apply IH|reflexivity|reflexivity].
Qed.

Definition offsets_body (blen : N) : cursor * list N -> N -> res (cursor * list N) :=
  fun '(m, offsets) (_ : N) =>
      obind (cur_read_u32 m) (fun '(offset, m') =>
      obind (if negb (offset mod 4 =? 0) then Err (InvalidAlignment offset)
             else if blen <? offset then Err (InvalidOffsetValue offset) else Ok tt) (fun _ =>
      Ok (m', offsets ++ [offset]))).

(* the offsets loop: the translated fold is the model's read_offsets on what is left of the cursor *)
Lemma km_offsets_loop : forall (blen : N) (l : list N) d p offs0,
  fold_res (offsets_body blen) l ((d, p), offs0)
  = obind (read_offsets (length l) (cur_rest (d, p)) blen) (fun '(os, _) =>
      Ok ((d, p + 4 * N.of_nat (length l)), offs0 ++ os)).
Proof.
  induction l as [|x l IH]; intros d p offs0.
  - cbn [fold_res length read_offsets obind]. rewrite app_nil_r. do 3 f_equal. lia.
  - cbn [fold_res length read_offsets]. unfold offsets_body at 1. unfold cur_read_u32 at 1. cbn [fst snd].
    destruct (cur_rest (d, p)) as [|a [|b [|c [|e rest]]]] eqn:Er; try reflexivity.
    replace (length (a :: b :: c :: e :: rest) <? 4)%nat with false by (cbn [length]; lia).
    cbn [obind]. rewrite (rd32_4 a b c e rest).
    set (off := rd32 [a; b; c; e]).
    destruct (negb (off mod 4 =? 0)); [reflexivity|].
    destruct (blen <? off); [reflexivity|]. cbn [obind].
    rewrite IH. rewrite km_rest_adv, Er. change (N.to_nat 4) with 4%nat. cbn [skipn].
    destruct (read_offsets (length l) rest blen) as [[os r]| |]; cbn [obind]; [|reflexivity|reflexivity].
    rewrite <- app_assoc. cbn [app]. do 3 f_equal. lia.
Qed.

Lemma km_last_snoc : forall {A} (l : list A) x, last_opt (l ++ [x]) = Some x.
Proof. intros. unfold last_opt. rewrite rev_app_distr. reflexivity. Qed.

Definition tags_body : bytes * cursor * list tag -> N -> res (bytes * cursor * list tag) :=
  fun '(buf, m, tags) (_ : N) =>
      obind (match cur_read_exact m 4 with
             | None => Err MessageTooShort
             | Some (buf', m') => Ok (buf', m') end) (fun '(buf', m') =>
      obind (tag_from_wire_r buf') (fun tg =>
      obind (match last_opt tags with
             | Some lt => obind (if tag_le tg lt then Err (TagNotStrictlyIncreasing tg) else Ok tt) (fun _ => Ok tt)
             | _ => Ok tt end) (fun _ =>
      Ok (buf', m', tags ++ [tg])))).

(* the tags loop *)
Lemma km_tags_loop : forall (l : list N) d p (buf0 : bytes) ts0,
  omap (fun '(_, m, ts) => (m, ts))
    (fold_res tags_body l (buf0, (d, p), ts0))
  = obind (read_tags (length l) (cur_rest (d, p)) (last_opt ts0)) (fun '(ts, _) =>
      Ok ((d, p + 4 * N.of_nat (length l)), ts0 ++ ts)).
Proof.
  induction l as [|x l IH]; intros d p buf0 ts0.
  - cbn [fold_res length read_tags obind omap]. rewrite app_nil_r. do 3 f_equal. lia.
  - cbn [fold_res length read_tags]. unfold tags_body at 1. unfold cur_read_exact at 1. cbn [fst snd].
    destruct (cur_rest (d, p)) as [|a [|b [|c [|e rest]]]] eqn:Er; try reflexivity.
    replace (length (a :: b :: c :: e :: rest) <? 4)%nat with false by (cbn [length]; lia).
    cbn [obind firstn]. unfold tag_from_wire_r at 1.
    destruct (tag_of_wire [a; b; c; e]) as [t|]; [|reflexivity]. cbn [obind].
    destruct (last_opt ts0) as [lt|].
    + destruct (tag_le t lt); [reflexivity|]. cbn [obind].
      rewrite IH. rewrite km_rest_adv, Er. change (N.to_nat (N.of_nat 4)) with 4%nat. cbn [skipn].
      rewrite km_last_snoc.
      destruct (read_tags (length l) rest (Some t)) as [[ts r]| |]; cbn [obind]; [|reflexivity|reflexivity].
      rewrite <- app_assoc. cbn [app]. do 3 f_equal. lia.
    + cbn [obind].
      rewrite IH. rewrite km_rest_adv, Er. change (N.to_nat (N.of_nat 4)) with 4%nat. cbn [skipn].
      rewrite km_last_snoc.
      destruct (read_tags (length l) rest (Some t)) as [[ts r]| |]; cbn [obind]; [|reflexivity|reflexivity].
      rewrite <- app_assoc. cbn [app]. do 3 f_equal. lia.
Qed.

(* the values loop *)
Lemma km_slice_site : forall s1 s2 (bs : bytes) a b, (a <= b)%nat -> (b <= length bs)%nat ->
  slice (E:=error) s1 bs a b = slice s2 bs a b.
Proof. intros. rewrite !slice_ok by assumption. reflexivity. Qed.

Definition values_body (bs : bytes) (he : N) : msg -> tag * (N * N) -> res msg :=
  fun (rt : msg) (x_it : tag * (N * N)) =>
      let '(tg, (vs, ve)) := x_it in
      obind (if (lenN bs <? he + ve) || (he + ve <? he + vs)
             then Err (InvalidValueLength tg (as_u32 (he + ve))) else Ok tt) (fun _ =>
      obind (slice_n site_gen bs (he + vs) (he + ve)) (fun s =>
      obind (add_field rt tg s) (fun rt' => Ok rt'))).

Lemma km_values_loop : forall (bs : bytes) (he : N) ts ss es acc,
  fold_res (values_body bs he)
    (combine ts (combine ss es)) acc
  = read_values bs (N.to_nat he) ts (map N.to_nat ss) (map N.to_nat es) acc.
Proof.
  intros bs he ts. induction ts as [|t ts IH]; intros ss es acc.
  - reflexivity.
  - destruct ss as [|s ss]; [reflexivity|]. destruct es as [|e es]; [reflexivity|].
    cbn [combine fold_res map read_values]. unfold values_body at 1.
    replace ((lenN bs <? he + e) || (he + e <? he + s))
      with ((length bs <? N.to_nat he + N.to_nat e)%nat || (N.to_nat he + N.to_nat e <? N.to_nat he + N.to_nat s)%nat)
      by (unfold lenN; lia).
    destruct ((length bs <? N.to_nat he + N.to_nat e)%nat || (N.to_nat he + N.to_nat e <? N.to_nat he + N.to_nat s)%nat) eqn:E.
    + cbn [obind]. replace (N.of_nat (N.to_nat he + N.to_nat e)) with (he + e) by lia. reflexivity.
    + cbn [obind]. unfold slice_n.
      replace (N.to_nat (he + s)) with (N.to_nat he + N.to_nat s)%nat by lia.
      replace (N.to_nat (he + e)) with (N.to_nat he + N.to_nat e)%nat by lia.
      rewrite (km_slice_site site_gen site_slice_value) by lia.
      destruct (slice site_slice_value bs _ _) as [v| |]; cbn [obind]; try reflexivity.
      destruct (add_field acc t v) as [acc'| |]; cbn [obind]; try reflexivity.
      apply IH.
Qed.

(* the body of a translated loop equals the reference body: by computation when the source has today's
   shape, otherwise by splitting on every scrutinee until both sides are the same value (this absorbs
   rewrites such as a check moved into a private helper) *)
Ltac km_body_eq :=
  intros;
  first
    [ reflexivity
    | repeat match goal with p : (_ * _)%type |- _ => destruct p end;
      cbv beta delta [obind offsets_body tags_body values_body] iota;
      repeat (cbv beta iota;
              match goal with
              | |- context [match ?x with _ => _ end] =>
                  (* innermost scrutinee first: an atom shared by both sides *)
                  lazymatch x with
                  | context [match _ with _ => _ end] => fail
                  | _ => destruct x eqn:?
                  end
              end);
      reflexivity ].

Lemma km_range_length : forall a b, length (range_n a b) = N.to_nat (b - a).
Proof. intros. unfold range_n. rewrite map_length, seq_length. reflexivity. Qed.

Lemma gen_multi_tag_model : forall num_tags bs, 2 <= num_tags ->
  gen_multi_tag_message num_tags bs (bs, 4) = multi_tag_message num_tags bs.
Proof.
  intros num_tags bs Hn. unfold gen_multi_tag_message, multi_tag_message, sub_chk.
  replace (num_tags <? 1) with false by lia. cbn [obind]. cbv zeta.
  match goal with |- context [fold_res ?F (range_n 0 _) ((bs, 4), [])] =>
    rewrite (km_fold_ext F (offsets_body (as_u32 (lenN bs))) ltac:(km_body_eq)) end.
  rewrite km_offsets_loop. rewrite km_range_length.
  replace (N.to_nat (num_tags - 1 - 0)) with (N.to_nat num_tags - 1)%nat by lia.
  change (cur_rest (bs, 4)) with (skipn 4 bs).
  pose proof (read_offsets_spec (N.to_nat num_tags - 1) (skipn 4 bs) (as_u32 (lenN bs))) as Ho.
  destruct (read_offsets (N.to_nat num_tags - 1) (skipn 4 bs) (as_u32 (lenN bs))) as [[offs cur1]| |];
    cbn [obind]; [|reflexivity|reflexivity].
  destruct Ho as ((Hlo & _ & _) & _ & Hcur1). cbn [app].
  (* the tags loop *)
  match goal with |- context [fold_res ?F (range_n 0 _) (_, _, [])] =>
    rewrite (km_fold_ext F tags_body ltac:(km_body_eq)) end.
  match goal with |- obind ?X ?K = _ =>
    transitivity (obind (omap (fun '(_, m, ts) => (m, ts)) X) (fun '(m, ts) => K (repeat_byte x00 4, m, ts)))
  end.
  { match goal with |- obind ?X _ = _ => destruct X as [[[b m] ts]| |]; reflexivity end. }
  rewrite km_tags_loop. rewrite km_range_length.
  replace (N.to_nat (num_tags - 0)) with (N.to_nat num_tags) by lia.
  replace (cur_rest (bs, 4 + 4 * N.of_nat (N.to_nat num_tags - 1))) with cur1.
  2:{ rewrite km_rest_adv. change (cur_rest (bs, 4)) with (skipn 4 bs). rewrite Hcur1. f_equal. lia. }
  change (last_opt (@nil tag)) with (@None tag).
  pose proof (read_tags_spec (N.to_nat num_tags) cur1 None) as Ht.
  destruct (read_tags (N.to_nat num_tags) cur1 None) as [[tags cur2]| |]; cbn [obind]; [|reflexivity|reflexivity].
  destruct Ht as ((Hlt & _ & _) & Hcur2). cbn [app snd].
  assert (Hlen1 : length cur1 = (length bs - 4 - 4 * (N.to_nat num_tags - 1))%nat).
  { rewrite Hcur1, !skipn_length. lia. }
  assert (Hlen2 : length cur2 = (length cur1 - 4 * N.to_nat num_tags)%nat).
  { rewrite Hcur2, skipn_length. reflexivity. }
  rewrite skipn_length in Hlo.
  set (he := 4 + 4 * N.of_nat (N.to_nat num_tags - 1) + 4 * N.of_nat (N.to_nat num_tags)).
  assert (Hhe : N.to_nat he = (length bs - length cur2)%nat) by (subst he; lia).
  replace (lenN bs <? he) with false by (unfold lenN; lia). cbn [obind].
  match goal with |- context [fold_res ?F (combine _ _) []] =>
    rewrite (km_fold_ext F (values_body bs he) ltac:(km_body_eq)) end.
  rewrite km_values_loop. rewrite Hhe. cbn [map]. rewrite map_app. cbn [map].
  change (N.to_nat 0) with 0%nat.
  replace (N.to_nat (lenN bs - he)) with (length bs - (length bs - length cur2))%nat by (unfold lenN; lia).
  destruct (read_values bs _ tags _ _ []); reflexivity.
Qed.

Lemma gen_single_tag_model : forall bs,
  gen_single_tag_message bs (bs, 4) = single_tag_message bs.
Proof.
  intros bs. unfold gen_single_tag_message, single_tag_message. cbn [fst snd].
  replace (lenN bs <? 8) with (length bs <? 8)%nat by (unfold lenN; lia).
  destruct (length bs <? 8)%nat eqn:E; [reflexivity|]. cbn [obind]. cbv zeta.
  change (4 + 4) with 8. unfold slice_n. change (N.to_nat 4) with 4%nat. change (N.to_nat 8) with 8%nat.
  rewrite (km_slice_site site_gen site_slice_tag) by lia.
  destruct (slice site_slice_tag bs 4 8) as [tw| |]; cbn [obind]; try reflexivity.
  unfold tag_from_wire_r. destruct (tag_of_wire tw) as [t|]; cbn [obind]; [|reflexivity].
  unfold cur_read_to_end, cur_rest. cbn [fst snd app]. change (N.to_nat 8) with 8%nat.
  destruct (add_field [] t (skipn 8 bs)); reflexivity.
Qed.

(* RtMessage::from_bytes as translated is the model's from_bytes, for every byte string *)
Theorem gen_from_bytes_model : forall bs, gen_from_bytes bs = from_bytes bs.
Proof.
  intros bs. unfold gen_from_bytes, from_bytes. cbv zeta.
  replace (lenN bs <? 4) with (length bs <? 4)%nat by (unfold lenN; lia).
  destruct (length bs <? 4)%nat eqn:E4; [reflexivity|].
  destruct (negb (lenN bs mod 4 =? 0)); [reflexivity|]. cbn [obind].
  unfold cur_read_u32, cur_new. change (cur_rest (bs, 0)) with bs. rewrite E4. cbn [obind fst snd].
  change (0 + 4) with 4.
  destruct (rd32 bs =? 0) eqn:E0; [reflexivity|].
  destruct (rd32 bs =? 1) eqn:E1; [apply gen_single_tag_model|].
  destruct (2 <=? rd32 bs) eqn:E2; cbn [andb].
  - destruct (rd32 bs <=? 1024); [apply gen_multi_tag_model; lia | reflexivity].
  - (* rd32 bs is neither 0 nor 1, so it is at least 2 *)
    destruct (rd32 bs <=? 1024) eqn:E3; [|reflexivity].
    exfalso. lia.
Qed.

Lemma gen_decoder_total : forall bs, is_panic (gen_from_bytes bs) = false.
Proof. intros bs. rewrite gen_from_bytes_model. exact (decode_total bs). Qed.

Lemma gen_values_are_payload : forall bs m, gen_from_bytes bs = Ok m -> m <> [] ->
  concat (map snd m) = skipn (8 * length m) bs.
Proof. intros bs m H. rewrite gen_from_bytes_model in H. exact (values_are_payload bs m H). Qed.
