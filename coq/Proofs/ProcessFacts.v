(* ProcessFacts.v — proofs of the process-shell goals of Spec/ProcessGoals.v (C15, C18, C19, C20)
   about Model/Process.v. *)
Require Import RV.Model.Bytes RV.Gen.Tables RV.Model.Tag RV.Model.Message RV.Model.Merkle
        RV.Model.Request RV.Model.Keys RV.Model.Server RV.Model.Process
        RV.Spec.MerkleGoals RV.Spec.RefVerify RV.Spec.ServerGoals RV.Spec.ProcessGoals.
Require Import RV.Proofs.RequestFacts RV.Proofs.ServerFacts.
From Coq Require Import ZArith Lia ZifyN ZifyBool ZifyNat.

(* ------------------------------------------------------------------ *)
(* set_nth *)

Lemma pf_set_nth_length : forall {A} (l : list A) n x, length (set_nth l n x) = length l.
Proof.
  intros A l. induction l as [|a l IH]; intros n x; [reflexivity|].
  destruct n as [|n]; cbn [set_nth length]; [reflexivity|]. rewrite IH. reflexivity.
Qed.

Lemma pf_nth_error_set_nth_eq : forall {A} (l : list A) n x,
  (n < length l)%nat -> nth_error (set_nth l n x) n = Some x.
Proof.
  intros A l. induction l as [|a l IH]; intros n x Hn; cbn [length] in Hn; [lia|].
  destruct n as [|n]; cbn [set_nth nth_error]; [reflexivity|]. apply IH. lia.
Qed.

Lemma pf_nth_error_set_nth_neq : forall {A} (l : list A) n m x,
  m <> n -> nth_error (set_nth l n x) m = nth_error l m.
Proof.
  intros A l. induction l as [|a l IH]; intros n m x Hne; [reflexivity|].
  destruct n as [|n]; destruct m as [|m]; cbn [set_nth nth_error]; try reflexivity.
  - congruence.
  - apply IH. congruence.
Qed.

Lemma pf_Forall_set_nth : forall {A} (P : A -> Prop) (l : list A) n x,
  Forall P l -> P x -> Forall P (set_nth l n x).
Proof.
  intros A P l. induction l as [|a l IH]; intros n x HF Hx; [constructor|].
  inversion HF as [|a' l' Ha Hl]; subst.
  destruct n as [|n]; cbn [set_nth]; constructor; auto.
Qed.

Lemma pf_Forall2_nth : forall {A B} (R : A -> B -> Prop) (l : list A) (l' : list B) n x d,
  Forall2 R l l' -> nth_error l n = Some x -> R x (nth n l' d).
Proof.
  intros A B R l l' n x d HF. revert n.
  induction HF as [|a b l l' Hab HF IH]; intros n Hn.
  - destruct n; discriminate.
  - destruct n as [|n]; cbn [nth_error nth] in *.
    + injection Hn as Hn. subst. exact Hab.
    + apply IH. exact Hn.
Qed.

Lemma pf_Forall2_set_nth : forall {A B} (R : A -> B -> Prop) (l : list A) (l' : list B) n x d,
  Forall2 R l l' -> R x (nth n l' d) -> Forall2 R (set_nth l n x) l'.
Proof.
  intros A B R l l' n x d HF. revert n.
  induction HF as [|a b l l' Hab HF IH]; intros n Hx.
  - constructor.
  - destruct n as [|n]; cbn [set_nth nth] in *; constructor; auto.
Qed.

Lemma pf_set_nth_app : forall {A} (l1 l2 : list A) a x,
  set_nth (l1 ++ a :: l2) (length l1) x = l1 ++ x :: l2.
Proof.
  intros A l1. induction l1 as [|b l1 IH]; intros l2 a x; cbn [app length set_nth]; [reflexivity|].
  rewrite IH. reflexivity.
Qed.

Lemma pf_repeat_snoc : forall {A} (a : A) k, repeat a k ++ [a] = repeat a (S k).
Proof.
  intros A a k. induction k as [|k IH]; cbn [repeat app]; [reflexivity|].
  rewrite IH. reflexivity.
Qed.

Lemma pf_nth_error_repeat : forall {A} (a : A) n w, (w < n)%nat -> nth_error (repeat a n) w = Some a.
Proof.
  intros A a n. induction n as [|n IH]; intros w Hw; [lia|].
  destruct w as [|w]; cbn [repeat nth_error]; [reflexivity|]. apply IH. lia.
Qed.

Lemma pf_nth_error_repeat_inv : forall {A} (a b : A) n w, nth_error (repeat a n) w = Some b -> b = a.
Proof.
  intros A a b n w Hn. apply nth_error_In in Hn. apply repeat_spec in Hn. exact Hn.
Qed.

(* ------------------------------------------------------------------ *)
(* C20: noninterference *)

Lemma pf_make_cert_ni : forall ed_pk ed_sign v lt1 lt2 ok,
  (forall m, ed_sign lt1 m = ed_sign lt2 m) ->
  make_cert ed_pk ed_sign v lt1 ok = make_cert ed_pk ed_sign v lt2 ok.
Proof.
  intros ed_pk ed_sign v lt1 lt2 ok Hsig. unfold make_cert.
  destruct (make_dele ed_pk ok) as [dele|e|p]; cbn [obind]; try reflexivity.
  destruct (unwrap site_unwrap_enc (encode dele)) as [db|e|p]; cbn [obind]; try reflexivity.
  rewrite Hsig. reflexivity.
Qed.

Lemma noninterference : forall H ed_pk ed_sign, goal_noninterference H ed_pk ed_sign.
Proof.
  intros H ed_pk ed_sign cfg lt1 lt2 oi oc Hpk Hsig.
  unfold server_new, responder_new, ltk_srv_value.
  rewrite Hpk.
  rewrite (pf_make_cert_ni ed_pk ed_sign RfcDraft13 lt1 lt2 oi Hsig).
  rewrite (pf_make_cert_ni ed_pk ed_sign Google lt1 lt2 oc Hsig).
  reflexivity.
Qed.
Print Assumptions noninterference.

(* ------------------------------------------------------------------ *)
(* health check *)

Lemma health_all : goal_health_all.
Proof.
  intro bursts. induction bursts as [|b r IH]; [reflexivity|].
  cbn [health_run health_event fold_right]. rewrite IH. reflexivity.
Qed.
Print Assumptions health_all.

(* ------------------------------------------------------------------ *)
(* C15: start-up *)

Lemma pf_count_cons : forall p a l,
  count_phase p (a :: l) =
  ((match p, a with
    | Serving, Serving | Dead, Dead | Waiting, Waiting | NotStarted, NotStarted => 1
    | _, _ => 0 end) + count_phase p l)%nat.
Proof.
  intros p a l. unfold count_phase. cbn [filter].
  destruct p, a; reflexivity.
Qed.

Lemma pf_count_nil : forall p, count_phase p [] = 0%nat.
Proof. reflexivity. Qed.

Lemma pf_count_dead_zero : forall l, Forall (fun p => p <> Dead) l -> count_phase Dead l = 0%nat.
Proof.
  intros l HF. induction HF as [|a l Ha HF IH]; [reflexivity|].
  rewrite pf_count_cons, IH. destruct a; try reflexivity. congruence.
Qed.

Lemma pf_count_repeat : forall n, count_phase Serving (repeat Serving n) = n.
Proof.
  induction n as [|n IH]; [reflexivity|].
  cbn [repeat]. rewrite pf_count_cons, IH. reflexivity.
Qed.

Lemma pf_count_set_nth_le_S : forall l w q,
  (count_phase Serving (set_nth l w q) <= S (count_phase Serving l))%nat.
Proof.
  induction l as [|a l IH]; intros w q; [cbn [set_nth]; lia|].
  destruct w as [|w]; cbn [set_nth]; rewrite !pf_count_cons.
  - destruct q, a; lia.
  - specialize (IH w q). lia.
Qed.

Lemma pf_count_set_nth_other : forall l w q, q <> Serving ->
  (count_phase Serving (set_nth l w q) <= count_phase Serving l)%nat.
Proof.
  induction l as [|a l IH]; intros w q Hq; [cbn [set_nth]; lia|].
  destruct w as [|w]; cbn [set_nth]; rewrite !pf_count_cons.
  - destruct q, a; try lia; congruence.
  - specialize (IH w q Hq). lia.
Qed.

Definition pf_safe (health reuseport : bool) : Prop := health = false \/ reuseport = true.

Lemma pf_safe_bind : forall health reuseport hb, pf_safe health reuseport ->
  health && negb (tcp_bind_ok reuseport hb) = false.
Proof.
  intros health reuseport hb [Hh|Hr]; subst; [reflexivity|].
  destruct health, hb; reflexivity.
Qed.

Definition pf_inv (n : nat) (st : startup) : Prop :=
  su_poisoned st = false
  /\ Forall (fun p => p <> Dead) (su_phases st)
  /\ length (su_phases st) = n
  /\ (forall w, (su_spawned st <= w)%nat -> (w < n)%nat -> nth_error (su_phases st) w = Some NotStarted).

Lemma pf_inv_init : forall n, pf_inv n (su_init n).
Proof.
  intro n. unfold pf_inv, su_init. cbn [su_poisoned su_phases su_spawned].
  split; [reflexivity|]. split; [|split].
  - apply Forall_forall. intros p Hp. apply repeat_spec in Hp. subst. discriminate.
  - apply repeat_length.
  - intros w _ Hw. apply pf_nth_error_repeat. exact Hw.
Qed.

Lemma pf_inv_step : forall health reuseport n st a, pf_safe health reuseport ->
  pf_inv n st -> pf_inv n (su_step health reuseport n st a).
Proof.
  intros health reuseport n st a Hsafe Hinv.
  destruct Hinv as [Hp [Hd [Hl Hns]]].
  destruct a as [|w]; cbn [su_step].
  - rewrite Hp. cbn [orb].
    destruct (n <=? su_spawned st)%nat eqn:E; [repeat split; assumption|].
    apply Nat.leb_gt in E.
    unfold pf_inv. cbn [su_poisoned su_phases su_spawned].
    split; [reflexivity|]. split; [|split].
    + apply pf_Forall_set_nth; [exact Hd|discriminate].
    + rewrite pf_set_nth_length. exact Hl.
    + intros w Hw1 Hw2. rewrite pf_nth_error_set_nth_neq by lia. apply Hns; lia.
  - destruct (nth_error (su_phases st) w) as [[| | |]|] eqn:E; try (repeat split; assumption).
    rewrite Hp. rewrite (pf_safe_bind health reuseport _ Hsafe).
    unfold pf_inv. cbn [su_poisoned su_phases su_spawned].
    split; [reflexivity|]. split; [|split].
    + apply pf_Forall_set_nth; [exact Hd|discriminate].
    + rewrite pf_set_nth_length. exact Hl.
    + intros w' Hw1 Hw2.
      assert (Hne : w' <> w).
      { intro Heq. subst w'. rewrite (Hns w Hw1 Hw2) in E. discriminate. }
      rewrite pf_nth_error_set_nth_neq by exact Hne. apply Hns; assumption.
Qed.

Lemma pf_inv_fold : forall health reuseport n sched st, pf_safe health reuseport ->
  pf_inv n st -> pf_inv n (fold_left (su_step health reuseport n) sched st).
Proof.
  intros health reuseport n sched. induction sched as [|a r IH]; intros st Hsafe Hinv; [exact Hinv|].
  cbn [fold_left]. apply IH; [exact Hsafe|]. apply pf_inv_step; assumption.
Qed.

Lemma pf_inv_run : forall health reuseport n sched, pf_safe health reuseport ->
  pf_inv n (su_run health reuseport n sched).
Proof.
  intros health reuseport n sched Hsafe. unfold su_run. apply pf_inv_fold; [exact Hsafe|apply pf_inv_init].
Qed.

Lemma startup_safe : goal_startup_safe.
Proof.
  intros health reuseport n sched Hsafe.
  destruct (pf_inv_run health reuseport n sched Hsafe) as [Hp [Hd _]].
  split; [exact Hp|]. apply pf_count_dead_zero. exact Hd.
Qed.
Print Assumptions startup_safe.

Lemma pf_serving_step : forall health reuseport n st a w, pf_inv n st ->
  nth_error (su_phases st) w = Some Serving ->
  nth_error (su_phases (su_step health reuseport n st a)) w = Some Serving.
Proof.
  intros health reuseport n st a w Hinv Hw.
  destruct Hinv as [Hp [Hd [Hl Hns]]].
  destruct a as [|w']; cbn [su_step].
  - rewrite Hp. cbn [orb].
    destruct (n <=? su_spawned st)%nat eqn:E; [exact Hw|].
    apply Nat.leb_gt in E. cbn [su_phases].
    assert (Hne : w <> su_spawned st).
    { intro Heq. subst w. rewrite (Hns (su_spawned st) (Nat.le_refl _) E) in Hw. discriminate. }
    rewrite pf_nth_error_set_nth_neq by exact Hne. exact Hw.
  - destruct (nth_error (su_phases st) w') as [[| | |]|] eqn:E; try exact Hw.
    assert (Hne : w <> w').
    { intro Heq. subst w'. rewrite Hw in E. discriminate. }
    destruct (su_poisoned st); [|destruct (health && negb (tcp_bind_ok reuseport (su_health_bound st)))];
      cbn [su_phases]; rewrite pf_nth_error_set_nth_neq by exact Hne; exact Hw.
Qed.

Lemma pf_serving_fold : forall health reuseport n more st w, pf_safe health reuseport ->
  pf_inv n st -> nth_error (su_phases st) w = Some Serving ->
  nth_error (su_phases (fold_left (su_step health reuseport n) more st)) w = Some Serving.
Proof.
  intros health reuseport n more. induction more as [|a r IH]; intros st w Hsafe Hinv Hw; [exact Hw|].
  cbn [fold_left]. apply IH; [exact Hsafe| |].
  - apply pf_inv_step; assumption.
  - apply pf_serving_step; assumption.
Qed.

Lemma startup_progress : goal_startup_progress.
Proof.
  intros health reuseport n sched w Hsafe Hwn st.
  pose proof (pf_inv_run health reuseport n sched Hsafe) as Hinv. fold st in Hinv.
  split; [|split].
  - intro Hw. destruct Hinv as [Hp [Hd [Hl Hns]]].
    cbn [su_step]. rewrite Hw, Hp. rewrite (pf_safe_bind health reuseport _ Hsafe).
    cbn [su_phases]. apply pf_nth_error_set_nth_eq. lia.
  - intros Hw more. apply pf_serving_fold; assumption.
  - intro Hsp. destruct Hinv as [Hp [Hd [Hl Hns]]].
    cbn [su_step]. rewrite Hp. cbn [orb].
    replace (n <=? su_spawned st)%nat with false by (symmetry; apply Nat.leb_gt; exact Hsp).
    cbn [su_spawned su_phases]. split; [reflexivity|].
    apply pf_nth_error_set_nth_eq. lia.
Qed.
Print Assumptions startup_progress.

(* the complete schedule *)
Lemma pf_spawn_all : forall health reuseport n m k hb, (k + m = n)%nat ->
  fold_left (su_step health reuseport n) (repeat MainSpawn m)
            (mkstartup (repeat Waiting k ++ repeat NotStarted m) false hb k)
  = mkstartup (repeat Waiting n) false hb n.
Proof.
  intros health reuseport n m. induction m as [|m IH]; intros k hb Hk.
  - cbn [repeat fold_left]. rewrite app_nil_r. replace k with n by lia. reflexivity.
  - cbn [repeat fold_left su_step su_poisoned su_spawned su_phases su_health_bound orb].
    replace (n <=? k)%nat with false by (symmetry; apply Nat.leb_gt; lia).
    replace (set_nth (repeat Waiting k ++ NotStarted :: repeat NotStarted m) k Waiting)
      with (repeat Waiting (S k) ++ repeat NotStarted m).
    + apply IH. lia.
    + rewrite <- pf_repeat_snoc, <- app_assoc. cbn [app].
      pose proof (pf_set_nth_app (repeat Waiting k) (repeat NotStarted m) NotStarted Waiting) as Hs.
      rewrite repeat_length in Hs. symmetry. exact Hs.
Qed.

Lemma pf_init_all : forall health reuseport n, pf_safe health reuseport ->
  forall m k hb, (k + m = n)%nat ->
  exists hb',
    fold_left (su_step health reuseport n) (map WorkerInit (seq k m))
              (mkstartup (repeat Serving k ++ repeat Waiting m) false hb n)
    = mkstartup (repeat Serving n) false hb' n.
Proof.
  intros health reuseport n Hsafe m. induction m as [|m IH]; intros k hb Hk.
  - exists hb. cbn [seq map repeat fold_left]. rewrite app_nil_r. replace k with n by lia. reflexivity.
  - cbn [seq map repeat fold_left su_step su_poisoned su_spawned su_phases su_health_bound].
    assert (Hnth : nth_error (repeat Serving k ++ Waiting :: repeat Waiting m) k = Some Waiting).
    { rewrite nth_error_app2 by (rewrite repeat_length; lia).
      rewrite repeat_length, Nat.sub_diag. reflexivity. }
    rewrite Hnth. rewrite (pf_safe_bind health reuseport _ Hsafe).
    replace (set_nth (repeat Serving k ++ Waiting :: repeat Waiting m) k Serving)
      with (repeat Serving (S k) ++ repeat Waiting m).
    + apply IH. lia.
    + rewrite <- pf_repeat_snoc, <- app_assoc. cbn [app].
      pose proof (pf_set_nth_app (repeat Serving k) (repeat Waiting m) Waiting Serving) as Hs.
      rewrite repeat_length in Hs. symmetry. exact Hs.
Qed.

Lemma pf_all_serving_step : forall health reuseport n hb a,
  su_step health reuseport n (mkstartup (repeat Serving n) false hb n) a
  = mkstartup (repeat Serving n) false hb n.
Proof.
  intros health reuseport n hb a. destruct a as [|w]; cbn [su_step su_poisoned su_spawned su_phases orb].
  - rewrite Nat.leb_refl. reflexivity.
  - destruct (nth_error (repeat Serving n) w) as [p|] eqn:E; [|reflexivity].
    apply pf_nth_error_repeat_inv in E. subst p. reflexivity.
Qed.

Lemma pf_all_serving_fold : forall health reuseport n hb more,
  fold_left (su_step health reuseport n) more (mkstartup (repeat Serving n) false hb n)
  = mkstartup (repeat Serving n) false hb n.
Proof.
  intros health reuseport n hb more. induction more as [|a r IH]; [reflexivity|].
  cbn [fold_left]. rewrite pf_all_serving_step. exact IH.
Qed.

Lemma startup_all_serving : goal_startup_all_serving.
Proof.
  intros health reuseport n more Hsafe sched. subst sched.
  unfold su_run. rewrite !fold_left_app. unfold su_init.
  pose proof (pf_spawn_all health reuseport n n 0 0 (Nat.add_0_l n)) as Hs.
  cbn [repeat app] in Hs. rewrite Hs. clear Hs.
  destruct (pf_init_all health reuseport n Hsafe n 0 0 (Nat.add_0_l n)) as [hb' Hi].
  cbn [repeat app] in Hi. rewrite Hi. clear Hi.
  rewrite pf_all_serving_fold. cbn [su_phases]. apply pf_count_repeat.
Qed.
Print Assumptions startup_all_serving.

(* before the fix *)
Definition pf_rinv (st : startup) : Prop :=
  (count_phase Serving (su_phases st) <= su_health_bound st)%nat /\ (su_health_bound st <= 1)%nat.

Lemma pf_rinv_step : forall n st a, pf_rinv st -> pf_rinv (su_step true false n st a).
Proof.
  intros n st a [Hc Hb]. destruct a as [|w]; cbn [su_step].
  - destruct (su_poisoned st || (n <=? su_spawned st)%nat); [split; assumption|].
    unfold pf_rinv. cbn [su_phases su_health_bound]. split; [|exact Hb].
    pose proof (pf_count_set_nth_other (su_phases st) (su_spawned st) Waiting ltac:(discriminate)). lia.
  - destruct (nth_error (su_phases st) w) as [[| | |]|] eqn:E; try (split; assumption).
    destruct (su_poisoned st).
    + unfold pf_rinv. cbn [su_phases su_health_bound]. split; [|exact Hb].
      pose proof (pf_count_set_nth_other (su_phases st) w Dead ltac:(discriminate)). lia.
    + destruct (su_health_bound st) as [|hb] eqn:Ehb; cbn [tcp_bind_ok negb andb].
      * unfold pf_rinv. cbn [su_phases su_health_bound]. split; [|lia].
        pose proof (pf_count_set_nth_le_S (su_phases st) w Serving). lia.
      * unfold pf_rinv. cbn [su_phases su_health_bound]. split; [|lia].
        pose proof (pf_count_set_nth_other (su_phases st) w Dead ltac:(discriminate)). lia.
Qed.

Lemma pf_rinv_fold : forall n sched st, pf_rinv st -> pf_rinv (fold_left (su_step true false n) sched st).
Proof.
  intros n sched. induction sched as [|a r IH]; intros st Hinv; [exact Hinv|].
  cbn [fold_left]. apply IH. apply pf_rinv_step. exact Hinv.
Qed.

Lemma startup_refuted : goal_startup_refuted.
Proof.
  intros n sched. unfold su_run.
  assert (Hinit : pf_rinv (su_init n)).
  { unfold pf_rinv, su_init. cbn [su_phases su_health_bound]. split; [|lia].
    assert (Hz : forall k, count_phase Serving (repeat NotStarted k) = 0%nat).
    { induction k as [|k IH]; [reflexivity|]. cbn [repeat]. rewrite pf_count_cons, IH. reflexivity. }
    rewrite Hz. lia. }
  destruct (pf_rinv_fold n sched (su_init n) Hinit) as [Hc Hb]. lia.
Qed.
Print Assumptions startup_refuted.

(* ------------------------------------------------------------------ *)
(* C19: the worker loop *)

Section Loop.
  Variable H : bytes -> bytes.
  Variable ed_pk : bytes -> bytes.
  Variable ed_sign : bytes -> bytes -> bytes.
  Hypothesis HL : HashLen H.
  Hypothesis HPk : PkLen ed_pk.
  Hypothesis HSig : SigLen ed_sign.

  Lemma pf_batch : forall cfg lt oi oc s n queue now coins,
    SInv H ed_pk ed_sign cfg lt oi oc s -> fault_pct cfg = 0%N -> (n <= 255)%nat ->
    exists s1 o1 coins1,
      one_batch H ed_sign s (firstn n queue) now coins = Ok (s1, o1, coins1)
      /\ SInv H ed_pk ed_sign cfg lt oi oc s1
      /\ so_sent o1 = spec_batch_sent_f H ed_pk ed_sign (send_fails cfg) (ltk_srv_value H ed_pk lt) lt oi oc now (firstn n queue).
  Proof.
    intros cfg lt oi oc s n queue now coins HS Hf Hn.
    assert (Hlen : (N.of_nat (length (firstn n queue)) <= 4294967296)%N).
    { pose proof (firstn_le_length n queue). lia. }
    destruct (sf_one_batch H ed_pk ed_sign HL HPk HSig classify_wellformed cfg lt oi oc s
                (firstn n queue) now coins HS Hlen (or_introl Hf))
      as [s1 [o1 [coins1 [Hob [HS1 [_ Hout]]]]]].
    exists s1, o1, coins1. split; [exact Hob|]. split; [exact HS1|].
    destruct (Hout Hf) as [Ha _]. exact Ha.
  Qed.

  Lemma pf_flood : forall cfg lt oi oc arrivals clk,
    fault_pct cfg = 0%N -> (1 <= batch_size cfg)%nat -> (batch_size cfg <= 255)%nat ->
    (forall j, (batch_size cfg <= length (arrivals j))%nat) ->
    forall fuel s queue k coins,
      SInv H ed_pk ed_sign cfg lt oi oc s -> (batch_size cfg <= length queue)%nat ->
      drain_live H ed_sign fuel s queue arrivals clk k coins = Panic site_mfuel.
  Proof.
    intros cfg lt oi oc arrivals clk Hf Hn1 Hn255 Harr.
    induction fuel as [|f IH]; intros s queue k coins HS Hq; [reflexivity|].
    assert (Hcfg : s_cfg s = cfg) by apply HS.
    cbn [drain_live]. rewrite Hcfg.
    destruct (pf_batch cfg lt oi oc s (batch_size cfg) queue (clk k) coins HS Hf Hn255)
      as [s1 [o1 [coins1 [Hob [HS1 _]]]]].
    rewrite Hob. cbn [obind].
    replace (length queue <? batch_size cfg)%nat with false by (symmetry; apply Nat.ltb_ge; exact Hq).
    rewrite IH; [reflexivity|exact HS1|].
    rewrite app_length. specialize (Harr k). lia.
  Qed.

  Lemma pf_whole : forall cfg lt oi oc arrivals clk,
    fault_pct cfg = 0%N -> (1 <= batch_size cfg)%nat -> (batch_size cfg <= 255)%nat ->
    forall fuel s queue k coins s' outs,
      SInv H ed_pk ed_sign cfg lt oi oc s ->
      drain_live H ed_sign fuel s queue arrivals clk k coins = Ok (s', outs) ->
      SInv H ed_pk ed_sign cfg lt oi oc s'
      /\ Forall (fun o => exists ds now,
                   (length ds <= batch_size cfg)%nat
                   /\ so_sent o = spec_batch_sent_f H ed_pk ed_sign (send_fails cfg) (ltk_srv_value H ed_pk lt) lt oi oc now ds) outs.
  Proof.
    intros cfg lt oi oc arrivals clk Hf Hn1 Hn255.
    induction fuel as [|f IH]; intros s queue k coins s' outs HS Hd; [discriminate|].
    assert (Hcfg : s_cfg s = cfg) by apply HS.
    cbn [drain_live] in Hd. rewrite Hcfg in Hd.
    destruct (pf_batch cfg lt oi oc s (batch_size cfg) queue (clk k) coins HS Hf Hn255)
      as [s1 [o1 [coins1 [Hob [HS1 Hsent]]]]].
    rewrite Hob in Hd. cbn [obind] in Hd.
    assert (Ho1 : exists ds now, (length ds <= batch_size cfg)%nat
                   /\ so_sent o1 = spec_batch_sent_f H ed_pk ed_sign (send_fails cfg) (ltk_srv_value H ed_pk lt) lt oi oc now ds).
    { exists (firstn (batch_size cfg) queue), (clk k). split; [apply firstn_le_length|exact Hsent]. }
    destruct (length queue <? batch_size cfg)%nat.
    - injection Hd as Hs Ho. subst s' outs. split; [exact HS1|]. constructor; [exact Ho1|constructor].
    - destruct (drain_live H ed_sign f s1 (skipn (batch_size cfg) queue ++ arrivals k) arrivals clk (S k) coins1)
        as [[s2 os]|e|p] eqn:E; cbn [obind] in Hd; try discriminate.
      injection Hd as Hs Ho. subst s' outs.
      destruct (IH s1 _ _ _ s2 os HS1 E) as [HS2 HF].
      split; [exact HS2|]. constructor; assumption.
  Qed.

  Lemma pf_quiet : forall cfg lt oi oc arr clk,
    fault_pct cfg = 0%N -> (1 <= batch_size cfg)%nat -> (batch_size cfg <= 255)%nat ->
    (forall k, arr k = []) ->
    forall fuel s q k coins,
      SInv H ed_pk ed_sign cfg lt oi oc s -> (length q < fuel)%nat ->
      exists s' outs,
        drain_live H ed_sign fuel s q arr clk k coins = Ok (s', outs)
        /\ SInv H ed_pk ed_sign cfg lt oi oc s'.
  Proof.
    intros cfg lt oi oc arr clk Hf Hn1 Hn255 Harr.
    induction fuel as [|f IH]; intros s q k coins HS Hq; [lia|].
    assert (Hcfg : s_cfg s = cfg) by apply HS.
    cbn [drain_live]. rewrite Hcfg.
    destruct (pf_batch cfg lt oi oc s (batch_size cfg) q (clk k) coins HS Hf Hn255)
      as [s1 [o1 [coins1 [Hob [HS1 _]]]]].
    rewrite Hob. cbn [obind].
    destruct (length q <? batch_size cfg)%nat eqn:E.
    - exists s1, [o1]. split; [reflexivity|exact HS1].
    - apply Nat.ltb_ge in E.
      destruct (IH s1 (skipn (batch_size cfg) q ++ arr k) (S k) coins1 HS1) as [s2 [os [Hd HS2]]].
      + rewrite Harr, app_nil_r, skipn_length. lia.
      + rewrite Hd. cbn [obind]. exists s2, (o1 :: os). split; [reflexivity|exact HS2].
  Qed.

  Lemma pf_exit : forall cfg lt oi oc flag_at traffic batches clk,
    fault_pct cfg = 0%N -> (1 <= batch_size cfg)%nat -> (batch_size cfg <= 255)%nat ->
    forall iters s i,
      SInv H ed_pk ed_sign cfg lt oi oc s ->
      (i <= flag_at)%nat -> (flag_at - i < iters)%nat ->
      (forall j, (i <= j <= flag_at)%nat ->
                 (forall k, snd (traffic j) k = []) /\ (length (fst (traffic j)) < batches j)%nat) ->
      exists r, polling_loop H ed_sign iters s i flag_at traffic batches clk = Ok r
                /\ length r = (flag_at - i + 1)%nat.
  Proof.
    intros cfg lt oi oc flag_at traffic batches clk Hf Hn1 Hn255.
    induction iters as [|it IH]; intros s i HS Hi Hit Htr; [lia|].
    cbn [polling_loop].
    destruct (Htr i (conj (Nat.le_refl i) Hi)) as [Harr Hlen].
    destruct (traffic i) as [q arr] eqn:Et. cbn [fst snd] in Harr, Hlen.
    destruct (pf_quiet cfg lt oi oc arr clk Hf Hn1 Hn255 Harr (batches i) s q 0%nat [] HS Hlen)
      as [s1 [outs [Hd HS1]]].
    rewrite Hd. cbn [obind].
    destruct (flag_at <=? i)%nat eqn:E.
    - apply Nat.leb_le in E. exists [outs]. split; [reflexivity|]. cbn [length]. lia.
    - apply Nat.leb_gt in E.
      destruct (IH s1 (S i) HS1) as [r [Hr Hlr]]; [lia|lia| |].
      + intros j Hj. apply Htr. lia.
      + rewrite Hr. cbn [obind]. exists (outs :: r). split; [reflexivity|]. cbn [length]. lia.
  Qed.
End Loop.

Lemma flood_never_returns : forall H ed_pk ed_sign, goal_flood_never_returns H ed_pk ed_sign.
Proof.
  intros H ed_pk ed_sign HL HPk HSig cfg lt oi oc fuel s queue arrivals clk k coins HS Hf Hn1 Hn255 Hq Harr.
  exact (pf_flood H ed_pk ed_sign HL HPk HSig cfg lt oi oc arrivals clk Hf Hn1 Hn255 Harr
           fuel s queue k coins HS Hq).
Qed.
Print Assumptions flood_never_returns.

Lemma whole_batches : forall H ed_pk ed_sign, goal_whole_batches H ed_pk ed_sign.
Proof.
  intros H ed_pk ed_sign HL HPk HSig cfg lt oi oc fuel s queue arrivals clk k coins s' outs HS Hf Hn1 Hn255 Hd.
  exact (pf_whole H ed_pk ed_sign HL HPk HSig cfg lt oi oc arrivals clk Hf Hn1 Hn255
           fuel s queue k coins s' outs HS Hd).
Qed.
Print Assumptions whole_batches.

Lemma exit_prompt : forall H ed_pk ed_sign, goal_exit_prompt H ed_pk ed_sign.
Proof.
  intros H ed_pk ed_sign HL HPk HSig cfg lt oi oc iters s i flag_at traffic batches clk HS Hf Hn1 Hn255 Hi Hit Htr.
  exact (pf_exit H ed_pk ed_sign HL HPk HSig cfg lt oi oc flag_at traffic batches clk Hf Hn1 Hn255
           iters s i HS Hi Hit Htr).
Qed.
Print Assumptions exit_prompt.

(* ------------------------------------------------------------------ *)
(* C18: the product of independent workers *)

Lemma product : forall H ed_pk ed_sign, goal_product H ed_pk ed_sign.
Proof.
  intros H ed_pk ed_sign HL HPk HSig cfg lt oks ws evs Hinv Hev Hf Hn1 Hn255.
  revert ws Hinv Hev.
  induction evs as [|e r IH]; intros ws Hinv Hev.
  - exists ws, []. split; [reflexivity|]. split; [exact Hinv|reflexivity].
  - inversion Hev as [|e' r' Hw Hr]; subst e' r'.
    cbn [run_sys].
    destruct (nth_error ws (d_worker e)) as [s|] eqn:En.
    2:{ apply nth_error_None in En. lia. }
    pose proof (pf_Forall2_nth _ ws oks (d_worker e) s ([], []) Hinv En) as HS.
    cbn beta in HS.
    destruct (drain_spec_f H ed_pk ed_sign classify_wellformed HL HPk HSig cfg lt
                (fst (nth (d_worker e) oks ([], []))) (snd (nth (d_worker e) oks ([], [])))
                s (d_queue e) (d_clk e) (d_coins e) HS Hf Hn1 Hn255) as [s' [lg [Hpe HS']]].
    rewrite Hpe. cbn [obind].
    assert (Hinv' : workers_inv H ed_pk ed_sign cfg lt oks (set_nth ws (d_worker e) s')).
    { unfold workers_inv. apply (pf_Forall2_set_nth _ ws oks (d_worker e) s' ([], [])); [exact Hinv|exact HS']. }
    destruct (IH (set_nth ws (d_worker e) s') Hinv') as [ws' [outs [Hrun [Hinv'' Hmap]]]].
    { rewrite pf_set_nth_length. exact Hr. }
    rewrite Hrun. cbn [obind].
    eexists. eexists. split; [reflexivity|]. split; [exact Hinv''|].
    cbn [map fst snd so_sent]. rewrite Hmap. reflexivity.
Qed.
Print Assumptions product.
