(* MerkleBinding.v — C04 binding: a (leaf, index, path) that recomputes the root of the functional
   Merkle tree is the genuine one, or exhibits a hash collision / a preimage of the zero node.

   Organisation: a bottom-up induction over the levels of the tree (mirroring [root_of] and
   [path_of]) handles paths of the right length; paths that are too short or too long are
   excluded by a "level" argument: [Lvl k v] says v is a genuine tree value k pairups above the
   leaves (or the zero padding), [Clm m v] says v was obtained by m climbing steps from a leaf
   hash; a value that is both, with k <> m, yields a collision ([mismatch]). *)
Require Import RV.Model.Bytes RV.Spec.RefMerkle RV.Spec.MerkleGoals.
From Coq Require Import Lia.

Lemma repeat_byte_length : forall b n, length (repeat_byte b n) = n.
Proof. induction n; simpl; auto. Qed.

Lemma app_split_len : forall (a b c d : bytes),
  length a = length c -> a ++ b = c ++ d -> a = c /\ b = d.
Proof.
  induction a as [|x a IH]; intros b' c; destruct c as [|y c]; simpl; intros d' Hl He;
    try discriminate.
  - auto.
  - injection He as -> He. injection Hl as Hl. destruct (IH _ _ _ Hl He) as [-> ->]. auto.
Qed.

Lemma list_pair_ind : forall (A : Type) (P : list A -> Prop),
  P [] -> (forall a, P [a]) -> (forall a b r, P r -> P (a :: b :: r)) -> forall l, P l.
Proof.
  intros A P H0 H1 H2 l.
  assert (P l /\ forall a, P (a :: l)) as [H _]; [|exact H].
  induction l as [|x l [IHa IHb]]; split; auto.
Qed.

Lemma div2_SS : forall n, Nat.div (S (S n)) 2 = S (Nat.div n 2).
Proof.
  intros n. replace (S (S n)) with (n + 1 * 2) by lia.
  rewrite Nat.div_add by lia. lia.
Qed.

Section Binding.
  Variable h : bytes -> bytes.
  Variable w : nat.
  Hypothesis Hlen : forall x, length (h x) = w.

  Notation leaf := (s_leaf h).
  Notation node := (s_node h).
  Notation zero := (s_zero w).
  Notation Coll := (Collision h w).
  Notation pair_up := (pairup h w).
  Notation root := (root_of h w).
  Notation path := (path_of h w).
  Notation sib := (sibling w).
  Notation climb := (s_climb h).

  Definition bytes_eq_dec : forall a b : bytes, {a = b} + {a <> b} :=
    list_eq_dec Byte.byte_eq_dec.

  Lemma hash_inj_or : forall a b, h a = h b -> a = b \/ Coll.
  Proof.
    intros a b H. destruct (bytes_eq_dec a b) as [E|N]; [left; exact E|].
    right. left. exists a, b. auto.
  Qed.

  Lemma hash_zero : forall x, h x = zero -> Coll.
  Proof. intros x H. right. exists x. exact H. Qed.

  Lemma zero_len : length zero = w.
  Proof. apply repeat_byte_length. Qed.

  Lemma node_inj : forall a b c d,
    length a = length c -> node a b = node c d -> (a = c /\ b = d) \/ Coll.
  Proof.
    intros a b c d Hl H. unfold s_node in H. apply hash_inj_or in H.
    destruct H as [H|H]; [|auto]. injection H as H. left. apply app_split_len; auto.
  Qed.

  Lemma leaf_inj : forall d d', leaf d = leaf d' -> d = d' \/ Coll.
  Proof.
    intros d d' H. unfold s_leaf in H. apply hash_inj_or in H.
    destruct H as [H|H]; [|auto]. injection H as H. auto.
  Qed.

  Lemma leaf_node : forall d a b, leaf d = node a b -> Coll.
  Proof.
    intros d a b H. unfold s_leaf, s_node in H. apply hash_inj_or in H.
    destruct H as [H|H]; [discriminate|auto].
  Qed.

  (* genuine tree values, k levels above the leaves *)
  Fixpoint Lvl (k : nat) (v : bytes) : Prop :=
    v = zero \/
    match k with
    | O => exists d, v = leaf d
    | S k' => exists a b, Lvl k' a /\ Lvl k' b /\ v = node a b
    end.

  (* values obtained by m climbing steps from a leaf hash *)
  Fixpoint Clm (m : nat) (v : bytes) : Prop :=
    match m with
    | O => exists d, v = leaf d
    | S m' => exists a b, length a = w /\ length b = w /\ (Clm m' a \/ Clm m' b) /\ v = node a b
    end.

  Lemma lvl_len : forall k v, Lvl k v -> length v = w.
  Proof.
    destruct k; simpl; intros v [->|H]; try apply zero_len.
    - destruct H as [d ->]. apply Hlen.
    - destruct H as (a & b & _ & _ & ->). apply Hlen.
  Qed.

  Lemma clm_hash : forall m v, Clm m v -> exists y, v = h y.
  Proof.
    destruct m; simpl; intros v H.
    - destruct H as [d ->]. eexists; reflexivity.
    - destruct H as (a & b & _ & _ & _ & ->). eexists; reflexivity.
  Qed.

  Lemma clm_len : forall m v, Clm m v -> length v = w.
  Proof. intros m v H. apply clm_hash in H. destruct H as [y ->]. apply Hlen. Qed.

  Lemma clm_zero : forall m, Clm m zero -> Coll.
  Proof.
    intros m H. apply clm_hash in H. destruct H as [y Hy]. apply (hash_zero y). auto.
  Qed.

  Lemma mismatch : forall k m v, Lvl k v -> Clm m v -> k <> m -> Coll.
  Proof.
    induction k as [|k IH]; intros m v HL HC Hne.
    - destruct HL as [->|[d ->]]; [exact (clm_zero _ HC)|].
      destruct m as [|m]; [congruence|].
      destruct HC as (a & b & _ & _ & _ & E). exact (leaf_node _ _ _ E).
    - destruct HL as [->|(a & b & La & Lb & ->)]; [exact (clm_zero _ HC)|].
      destruct m as [|m].
      + destruct HC as [d E]. exact (leaf_node _ _ _ (eq_sym E)).
      + destruct HC as (a' & b' & la & lb & Hc & E).
        apply node_inj in E; [|rewrite la; exact (lvl_len _ _ La)].
        destruct E as [[-> ->]|E]; [|exact E].
        destruct Hc as [Hc|Hc]; [apply (IH m a' La Hc)|apply (IH m b' Lb Hc)]; lia.
  Qed.

  (* ---- facts about one level ---- *)

  Lemma pairup_len : forall l,
    length l <= 2 * length (pair_up l) /\ 2 * length (pair_up l) <= S (length l).
  Proof.
    induction l as [| a | a b r IH] using list_pair_ind; simpl; lia.
  Qed.

  Lemma pairup_lvl : forall k l, Forall (Lvl k) l -> Forall (Lvl (S k)) (pair_up l).
  Proof.
    intros k. induction l as [| a | a b r IH] using list_pair_ind; intros HF; simpl.
    - constructor.
    - inversion HF; subst. constructor; [|constructor].
      right. exists a, zero. repeat split; auto. destruct k; left; reflexivity.
    - inversion HF as [|? ? Ha HF']; subst. inversion HF' as [|? ? Hb HF'']; subst.
      constructor; [|auto]. right. exists a, b. auto.
  Qed.

  Lemma pairup_nth : forall l i, i < length l ->
    nth (Nat.div i 2) (pair_up l) [] =
      if Nat.even i then node (nth i l []) (sib l i) else node (sib l i) (nth i l []).
  Proof.
    induction l as [| a | a b r IH] using list_pair_ind; intros i Hi.
    - simpl in Hi. lia.
    - simpl in Hi. assert (i = 0) by lia. subst. reflexivity.
    - destruct i as [|[|i]].
      + reflexivity.
      + reflexivity.
      + rewrite div2_SS. simpl in Hi.
        change (pair_up (a :: b :: r)) with (node a b :: pair_up r).
        change (nth (S (Nat.div i 2)) (node a b :: pair_up r) [])
          with (nth (Nat.div i 2) (pair_up r) []).
        rewrite IH by lia.
        change (Nat.even (S (S i))) with (Nat.even i).
        change (nth (S (S i)) (a :: b :: r) []) with (nth i r []).
        unfold sibling. change (Nat.even (S (S i))) with (Nat.even i).
        destruct (Nat.even i) eqn:Ev.
        * reflexivity.
        * destruct i as [|i]; [discriminate|]. reflexivity.
  Qed.

  Lemma root_lvl : forall f l k, Forall (Lvl k) l -> l <> [] -> length l <= f ->
    exists k', k <= k' /\ Lvl k' (root f l).
  Proof.
    induction f as [|f IH]; intros l k HF Hne Hl.
    - destruct l; [congruence|simpl in Hl; lia].
    - destruct l as [|a [|b r]]; [congruence| |].
      + exists k. split; [lia|]. inversion HF; auto.
      + change (root (S f) (a :: b :: r)) with (root f (pair_up (a :: b :: r))).
        destruct (IH (pair_up (a :: b :: r)) (S k)) as (k' & Hk & HL).
        * apply pairup_lvl; auto.
        * simpl. discriminate.
        * pose proof (pairup_len (a :: b :: r)) as Hp. simpl length in *. lia.
        * exists k'. split; [lia|auto].
  Qed.

  Lemma climb_clm : forall p x i k, Clm k x -> Forall (fun q => length q = w) p ->
    Clm (k + length p) (climb x i p).
  Proof.
    induction p as [|q p IH]; intros x i k Hx HF.
    - simpl. rewrite Nat.add_0_r. exact Hx.
    - inversion HF as [|? ? Hq HF']; subst. simpl length. rewrite Nat.add_succ_r.
      change (S (k + length p)) with (S k + length p). simpl climb.
      apply IH; [|exact HF'].
      pose proof (clm_len _ _ Hx) as Lx.
      destruct (Nat.even i); simpl; [exists x, q | exists q, x]; repeat split; auto.
  Qed.

  (* ---- the main induction over levels ---- *)

  Lemma climb_root : forall f l k i x p,
    Forall (Lvl k) l -> Clm k x -> Forall (fun q => length q = w) p ->
    i < length l -> length l <= f ->
    climb x i p = root f l ->
    (x = nth i l [] /\ p = path f l i) \/ Coll.
  Proof.
    induction f as [|f IH]; intros l k i x p HF Hx Hp Hi Hl E.
    - lia.
    - destruct l as [|a [|b r]]; [simpl in Hi; lia| |].
      + (* the level is the root *)
        simpl in Hi. assert (i = 0) by lia. subst i.
        change (root (S f) [a]) with a in E. change (path (S f) [a] 0) with (@nil bytes).
        destruct p as [|q p].
        * simpl in E. left. auto.
        * right. pose proof (climb_clm _ _ 0 _ Hx Hp) as HC. rewrite E in HC.
          inversion HF as [|? ? Ha _]; subst.
          apply (mismatch _ _ _ Ha HC). simpl. lia.
      + set (l := a :: b :: r) in *.
        change (root (S f) l) with (root f (pair_up l)) in E.
        change (path (S f) l i) with (sib l i :: path f (pair_up l) (Nat.div i 2)).
        pose proof (pairup_len l) as Hpl.
        assert (Hl2 : 2 <= length l) by (subst l; simpl; lia).
        assert (Hlf : length (pair_up l) <= f) by lia.
        assert (HF' : Forall (Lvl (S k)) (pair_up l)) by (apply pairup_lvl; auto).
        destruct p as [|q p].
        * (* path too short *)
          right. change (climb x i []) with x in E.
          destruct (root_lvl f (pair_up l) (S k) HF') as (k' & Hk & HL); [|exact Hlf|].
          { subst l. simpl. discriminate. }
          rewrite <- E in HL. apply (mismatch _ _ _ HL Hx). lia.
        * inversion Hp as [|? ? Hq Hp']; subst.
          change (climb x i (q :: p))
            with (climb (if Nat.even i then node x q else node q x) (Nat.div i 2) p) in E.
          pose proof (clm_len _ _ Hx) as Lx.
          assert (Hi2 : Nat.div i 2 < length (pair_up l)).
          { apply Nat.div_lt_upper_bound; lia. }
          assert (Lni : length (nth i l []) = w).
          { eapply lvl_len. eapply (proj1 (Forall_forall _ _) HF). apply nth_In. exact Hi. }
          pose proof (pairup_nth l i Hi) as Hn.
          destruct (Nat.even i) eqn:Ev.
          -- destruct (IH (pair_up l) (S k) (Nat.div i 2) (node x q) p) as [[Ex Epp]|C]; auto.
             { simpl. exists x, q. repeat split; auto. }
             rewrite Hn in Ex. apply node_inj in Ex; [|lia].
             destruct Ex as [[Ex Eq]|C]; [|auto]. left. split; [exact Ex|]. rewrite Eq, Epp. reflexivity.
          -- destruct (IH (pair_up l) (S k) (Nat.div i 2) (node q x) p) as [[Ex Epp]|C]; auto.
             { simpl. exists q, x. repeat split; auto. }
             rewrite Hn in Ex.
             assert (Ls : length (sib l i) = w).
             { unfold sibling. rewrite Ev.
               destruct (Nat.lt_ge_cases (pred i) (length l)) as [Hlt|Hge].
               - eapply lvl_len. eapply (proj1 (Forall_forall _ _) HF). apply nth_In. exact Hlt.
               - rewrite nth_overflow by exact Hge. apply zero_len. }
             apply node_inj in Ex; [|lia].
             destruct Ex as [[Eq Ex]|C]; [|auto]. left. split; [exact Ex|]. rewrite Eq, Epp. reflexivity.
  Qed.

  Theorem binding_gen : forall ls j d p,
    Forall (fun q => length q = w) p -> j < length ls ->
    s_recompute h d j p = s_root h w ls ->
    (d = nth j ls [] /\ p = s_path h w ls j) \/ Coll.
  Proof.
    intros ls j d p Hp Hj E. unfold s_recompute, s_root, s_path in *.
    destruct (climb_root (length ls) (map leaf ls) 0 j (leaf d) p) as [[Ex Epp]|C]; auto.
    - apply Forall_forall. intros v Hin. apply in_map_iff in Hin.
      destruct Hin as (d' & <- & _). right. exists d'. reflexivity.
    - simpl. exists d. reflexivity.
    - rewrite map_length. exact Hj.
    - rewrite map_length. lia.
    - rewrite (nth_indep _ [] (leaf [])) in Ex by (rewrite map_length; exact Hj).
      rewrite map_nth in Ex. apply leaf_inj in Ex. destruct Ex as [Ex|C]; auto.
  Qed.
End Binding.

Lemma binding : goal_binding.
Proof.
  unfold goal_binding. intros h w ls j d p Hlen Hp Hj E.
  eapply binding_gen; eauto.
Qed.

Print Assumptions binding.
