(* BytesFacts.v — generic facts about bytes, little-endian words and list slicing *)
Require Import RV.Model.Bytes.
From Coq Require Import ZArith Lia ZifyN ZifyBool ZifyNat.
Ltac Zify.zify_post_hook ::= Z.div_mod_to_equations.
Local Open Scope N_scope.

(* ---- bytes ---- *)

Lemma b2n_lt : forall b, b2n b < 256.
Proof. intro b. unfold b2n. pose proof (Byte.to_N_bounded b). lia. Qed.

Lemma n2b_b2n : forall b, n2b (b2n b) = b.
Proof.
  intro b. unfold n2b. rewrite N.mod_small by apply b2n_lt.
  unfold b2n. rewrite Byte.of_to_N. reflexivity.
Qed.

Lemma b2n_n2b : forall n, b2n (n2b n) = n mod 256.
Proof.
  intro n. unfold n2b, b2n. destruct (Byte.of_N (n mod 256)) eqn:E.
  - apply Byte.to_of_N in E. exact E.
  - apply Byte.of_N_None_iff in E. exfalso.
    pose proof (N.mod_upper_bound n 256). lia.
Qed.

Lemma n2b_eq : forall x a, x mod 256 = b2n a -> n2b x = a.
Proof.
  intros x a H. unfold n2b. rewrite H. unfold b2n. rewrite Byte.of_to_N. reflexivity.
Qed.

Lemma b2n_inj : forall a b, b2n a = b2n b -> a = b.
Proof.
  intros a b H. rewrite <- (n2b_b2n a), <- (n2b_b2n b). rewrite H. reflexivity.
Qed.

Lemma byte_eqb_eq : forall a b, byte_eqb a b = true -> a = b.
Proof. intros a b H. unfold byte_eqb in H. apply N.eqb_eq in H. apply b2n_inj. exact H. Qed.

Lemma byte_eqb_refl : forall a, byte_eqb a a = true.
Proof. intro a. unfold byte_eqb. apply N.eqb_refl. Qed.

Lemma bytes_eqb_eq : forall a b, bytes_eqb a b = true -> a = b.
Proof.
  induction a as [|x a IH]; intros [|y b] H; cbn [bytes_eqb] in H; try discriminate; [reflexivity|].
  apply andb_true_iff in H. destruct H as [H1 H2].
  apply byte_eqb_eq in H1. apply IH in H2. subst. reflexivity.
Qed.

Lemma bytes_eqb_refl : forall a, bytes_eqb a a = true.
Proof.
  induction a as [|x a IH]; cbn [bytes_eqb]; [reflexivity|].
  rewrite byte_eqb_refl, IH. reflexivity.
Qed.

(* ---- 32-bit little-endian words ---- *)

Lemma length_u32le : forall n, length (u32le n) = 4%nat.
Proof. reflexivity. Qed.

Lemma rd32_4 : forall a b c d rest, rd32 (a :: b :: c :: d :: rest) = rd32 [a; b; c; d].
Proof. reflexivity. Qed.

Lemma rd32_lt : forall l, rd32 l < two32.
Proof.
  intro l. unfold two32.
  destruct l as [|a [|b [|c [|d r]]]]; cbn [rd32]; try lia.
  pose proof (b2n_lt a). pose proof (b2n_lt b). pose proof (b2n_lt c). pose proof (b2n_lt d).
  lia.
Qed.

Lemma rd32_u32le : forall n, n < two32 -> rd32 (u32le n) = n.
Proof.
  intros n H. unfold two32 in H. unfold u32le. cbn [rd32]. rewrite !b2n_n2b. lia.
Qed.

Lemma u32le_rd32 : forall a b c d, u32le (rd32 [a; b; c; d]) = [a; b; c; d].
Proof.
  intros a b c d. unfold u32le. cbn [rd32].
  pose proof (b2n_lt a). pose proof (b2n_lt b). pose proof (b2n_lt c). pose proof (b2n_lt d).
  f_equal; [|f_equal; [|f_equal; [|f_equal]]]; apply n2b_eq; lia.
Qed.

Lemma u32le_rd32_firstn : forall l, (4 <= length l)%nat -> u32le (rd32 l) = firstn 4 l.
Proof.
  intros l H. destruct l as [|a [|b [|c [|d r]]]]; cbn [length] in H; try lia.
  rewrite rd32_4, u32le_rd32. reflexivity.
Qed.

Lemma rd32_inj4 : forall a b c d a' b' c' d',
  rd32 [a; b; c; d] = rd32 [a'; b'; c'; d'] -> [a; b; c; d] = [a'; b'; c'; d'].
Proof.
  intros. rewrite <- (u32le_rd32 a b c d), <- (u32le_rd32 a' b' c' d'). rewrite H. reflexivity.
Qed.

Lemma as_u32_small : forall n, n < two32 -> as_u32 n = n.
Proof. intros n H. unfold as_u32. apply N.mod_small. exact H. Qed.

Lemma as_u32_rd32 : forall l, as_u32 (rd32 l) = rd32 l.
Proof. intro l. apply as_u32_small. apply rd32_lt. Qed.

Lemma lenN_nat : forall {A} (l : list A), N.to_nat (lenN l) = length l.
Proof. intros. unfold lenN. apply Nat2N.id. Qed.

(* ---- list slicing ---- *)

Lemma skipn_skipn' : forall {A} (x y : nat) (l : list A), skipn x (skipn y l) = skipn (y + x) l.
Proof.
  intros A x y. revert x. induction y as [|y IH]; intros x l; [reflexivity|].
  destruct l as [|a l]; cbn [skipn Nat.add].
  - apply skipn_nil.
  - apply IH.
Qed.

Lemma firstn_skipn_all : forall {A} (n k : nat) (l : list A),
  (length l <= k + n)%nat -> firstn n (skipn k l) = skipn k l.
Proof. intros. apply firstn_all2. rewrite skipn_length. lia. Qed.

Lemma list_split4 : forall (l : bytes), (4 <= length l)%nat ->
  exists a b c d r, l = a :: b :: c :: d :: r.
Proof.
  intros l H. destruct l as [|a [|b [|c [|d r]]]]; cbn [length] in H; try lia.
  eauto 6.
Qed.

Lemma map_snd_combine : forall {A B} (a : list A) (b : list B),
  length a = length b -> map snd (combine a b) = b.
Proof.
  induction a as [|x a IH]; intros [|y b] H; cbn in *; try discriminate; [reflexivity|].
  f_equal. apply IH. lia.
Qed.

Lemma map_fst_combine : forall {A B} (a : list A) (b : list B),
  length a = length b -> map fst (combine a b) = a.
Proof.
  induction a as [|x a IH]; intros [|y b] H; cbn in *; try discriminate; [reflexivity|].
  f_equal. apply IH. lia.
Qed.
