(* WiringFacts.v — C17 "match the traffic served": the statistics events the serving loop issues
   (Model/Server.v so_stats, proved equal to spec_drain_stats_f by C09_drain_send_failures) against
   the datagrams it read and the datagrams it actually emitted, per address, for every pattern of
   send failures. *)
Require Import RV.Model.Bytes RV.Gen.Tables RV.Model.Message RV.Model.Merkle RV.Model.Request
        RV.Model.Keys RV.Model.Server RV.Model.Stats.
Require Import RV.Spec.RefVerify RV.Spec.ServerGoals RV.Spec.StatsGoals.
From Coq Require Import ZArith Lia ZifyN ZifyBool ZifyNat.
Local Open Scope N_scope.

(* datagrams emitted to address a, and their total size *)
Definition sent_to (a : addr) (es : list emission) : list emission :=
  filter (fun e => em_dest e =? a) es.
Definition bytes_of (es : list emission) : N :=
  fold_right (fun e acc => lenN (em_bytes e) + acc) 0 es.
Definition from_addr (a : addr) (ds : list dgram) : list dgram :=
  filter (fun d => fst d =? a) ds.

Definition resp_kind (v : version) : kind :=
  match v with Google => KClassicResp | RfcDraft13 => KRfcResp end.

Definition is_request_kind (k : kind) : bool :=
  match k with KRfcReq | KClassicReq | KInvalid => true | _ => false end.

(* ---- list algebra ---- *)
Lemma wf_count_ka_app : forall k a l1 l2, count_ka k a (l1 ++ l2) = count_ka k a l1 + count_ka k a l2.
Proof. intros. unfold count_ka. rewrite filter_app, app_length. lia. Qed.

Lemma wf_bytes_a_app : forall a l1 l2, bytes_a a (l1 ++ l2) = bytes_a a l1 + bytes_a a l2.
Proof.
  intros a l1 l2. unfold bytes_a. induction l1 as [|e l1 IH]; cbn [app fold_right]; [lia|].
  rewrite IH. lia.
Qed.

Lemma wf_sent_to_app : forall a l1 l2, sent_to a (l1 ++ l2) = sent_to a l1 ++ sent_to a l2.
Proof. intros. unfold sent_to. apply filter_app. Qed.

Lemma wf_bytes_of_app : forall l1 l2, bytes_of (l1 ++ l2) = bytes_of l1 + bytes_of l2.
Proof.
  intros l1 l2. unfold bytes_of. induction l1 as [|e l1 IH]; cbn [app fold_right]; [lia|].
  rewrite IH. lia.
Qed.

Lemma wf_count_ka_cons : forall k a e l,
  count_ka k a (e :: l) = (if kind_eqb (ev_kind e) k && (ev_addr e =? a) then 1 else 0) + count_ka k a l.
Proof.
  intros. unfold count_ka. cbn [filter].
  destruct (kind_eqb (ev_kind e) k && (ev_addr e =? a)); cbn [length]; lia.
Qed.

Lemma wf_bytes_a_cons : forall a e l,
  bytes_a a (e :: l) = (if ev_addr e =? a then ev_bytes e else 0) + bytes_a a l.
Proof. reflexivity. Qed.

(* ---- the response events of one protocol's replies ---- *)
Definition failed_to (sf : addr -> bool) (a : addr) (es : list emission) : list emission :=
  filter (fun e => sf (em_dest e) && (em_dest e =? a)) es.

Lemma wf_delivered_cons : forall sf e es,
  delivered sf (e :: es) = if sf (em_dest e) then delivered sf es else e :: delivered sf es.
Proof. intros. unfold delivered. cbn [filter]. destruct (sf (em_dest e)); reflexivity. Qed.

Lemma wf_sent_to_cons : forall a e es,
  sent_to a (e :: es) = if em_dest e =? a then e :: sent_to a es else sent_to a es.
Proof. reflexivity. Qed.

Lemma wf_stats_f_cons : forall sf v e es,
  spec_response_stats_f sf v (e :: es) =
    (if sf (em_dest e) then SFailedSend (em_dest e)
     else match v with
          | Google => SClassicResponse (em_dest e) (lenN (em_bytes e))
          | RfcDraft13 => SRfcResponse (em_dest e) (lenN (em_bytes e))
          end) :: spec_response_stats_f sf v es.
Proof. reflexivity. Qed.

Lemma wf_resp_count : forall sf v es a,
  count_ka (resp_kind v) a (spec_response_stats_f sf v es)
  = N.of_nat (length (sent_to a (delivered sf es))).
Proof.
  intros sf v es a. induction es as [|e es IH]; [reflexivity|].
  rewrite wf_stats_f_cons, wf_delivered_cons, wf_count_ka_cons, IH.
  destruct (sf (em_dest e)) eqn:Es.
  - cbn [ev_kind ev_addr]. destruct v; cbn [resp_kind kind_eqb andb]; lia.
  - rewrite wf_sent_to_cons.
    destruct v; cbn [ev_kind ev_addr resp_kind kind_eqb andb]; destruct (em_dest e =? a);
      cbn [length]; lia.
Qed.

Lemma wf_resp_bytes : forall sf v es a,
  bytes_a a (spec_response_stats_f sf v es) = bytes_of (sent_to a (delivered sf es)).
Proof.
  intros sf v es a. induction es as [|e es IH]; [reflexivity|].
  rewrite wf_stats_f_cons, wf_delivered_cons, wf_bytes_a_cons, IH.
  destruct (sf (em_dest e)) eqn:Es.
  - cbn [ev_addr ev_bytes]. destruct (em_dest e =? a); lia.
  - rewrite wf_sent_to_cons.
    destruct v; cbn [ev_addr ev_bytes]; destruct (em_dest e =? a);
      unfold bytes_of; cbn [fold_right]; lia.
Qed.

Lemma wf_resp_failed : forall sf v es a,
  count_ka KFailed a (spec_response_stats_f sf v es) = N.of_nat (length (failed_to sf a es)).
Proof.
  intros sf v es a. induction es as [|e es IH]; [reflexivity|].
  rewrite wf_stats_f_cons, wf_count_ka_cons, IH. unfold failed_to. cbn [filter]. fold (failed_to sf a es).
  destruct (sf (em_dest e)) eqn:Es.
  - cbn [ev_kind ev_addr kind_eqb andb]. destruct (em_dest e =? a); cbn [length]; lia.
  - destruct v; cbn [ev_kind ev_addr kind_eqb andb]; lia.
Qed.

Lemma wf_resp_other : forall sf v es a k, k <> resp_kind v -> k <> KFailed ->
  count_ka k a (spec_response_stats_f sf v es) = 0.
Proof.
  intros sf v es a k Hk Hf. induction es as [|e es IH]; [reflexivity|].
  rewrite wf_stats_f_cons, wf_count_ka_cons, IH.
  destruct (sf (em_dest e)); destruct v; destruct k; cbn [ev_kind resp_kind kind_eqb andb] in *;
    try reflexivity; congruence.
Qed.

(* every attempted reply is either delivered or failed *)
Lemma wf_delivered_or_failed : forall sf a es,
  length (sent_to a es) = (length (sent_to a (delivered sf es)) + length (failed_to sf a es))%nat.
Proof.
  intros sf a es. induction es as [|e es IH]; [reflexivity|].
  rewrite wf_delivered_cons, wf_sent_to_cons. unfold failed_to. cbn [filter]. fold (failed_to sf a es).
  destruct (sf (em_dest e)); destruct (em_dest e =? a) eqn:Ea; cbn [andb length];
    rewrite ?wf_sent_to_cons, ?Ea; cbn [length]; lia.
Qed.

(* ---- the request events ---- *)
Lemma wf_req_stats_resp : forall srv ds a k, is_request_kind k = false ->
  count_ka k a (spec_request_stats srv ds) = 0.
Proof.
  intros srv ds a k Hk. unfold spec_request_stats. induction ds as [|d ds IH]; [reflexivity|].
  cbn [map]. rewrite wf_count_ka_cons, IH.
  destruct (wellformed srv (snd d)) as [[n [|]]|]; destruct k; cbn [ev_kind kind_eqb andb is_request_kind] in *;
    try reflexivity; discriminate.
Qed.

Lemma wf_req_stats_bytes : forall srv ds a, bytes_a a (spec_request_stats srv ds) = 0.
Proof.
  intros srv ds a. unfold spec_request_stats. induction ds as [|d ds IH]; [reflexivity|].
  cbn [map]. rewrite wf_bytes_a_cons, IH.
  destruct (wellformed srv (snd d)) as [[n [|]]|]; cbn [ev_addr ev_bytes]; destruct (fst d =? a); reflexivity.
Qed.

(* one request event per datagram read from address a, of the kind its classification says *)
Lemma wf_req_stats_total : forall srv ds a,
  count_ka KRfcReq a (spec_request_stats srv ds) + count_ka KClassicReq a (spec_request_stats srv ds)
  + count_ka KInvalid a (spec_request_stats srv ds) = N.of_nat (length (from_addr a ds)).
Proof.
  intros srv ds a. unfold spec_request_stats. induction ds as [|d ds IH]; [reflexivity|].
  cbn [map]. rewrite !wf_count_ka_cons. unfold from_addr. cbn [filter]. fold (from_addr a ds).
  assert (Hd : forall (b : bool) (x : dgram) (l : list dgram),
             N.of_nat (length (if b then x :: l else l)) = (if b then 1 else 0) + N.of_nat (length l)).
  { intros b x l. destruct b; cbn [length]; lia. }
  rewrite Hd.
  destruct (wellformed srv (snd d)) as [[n [|]]|]; cbn [ev_kind ev_addr kind_eqb andb];
    unfold dgram, addr, bytes in *; destruct (fst d =? a); lia.
Qed.

(* ---- one batch ---- *)
Section Wiring.
  Variable H : bytes -> bytes.
  Variable ed_pk : bytes -> bytes.
  Variable ed_sign : bytes -> bytes -> bytes.
  Variable sf : addr -> bool.

  Definition wired (a : addr) (read : list dgram) (attempts sent : list emission) (st : list sev) : Prop :=
    count_ka KRfcReq a st + count_ka KClassicReq a st + count_ka KInvalid a st
      = N.of_nat (length (from_addr a read))
    /\ count_ka KRfcResp a st + count_ka KClassicResp a st = N.of_nat (length (sent_to a sent))
    /\ bytes_a a st = bytes_of (sent_to a sent)
    /\ count_ka KFailed a st = N.of_nat (length (failed_to sf a attempts))
    /\ length (sent_to a attempts) = (length (sent_to a sent) + length (failed_to sf a attempts))%nat
    /\ count_ka KHealth a st = 0 /\ count_ka KRetried a st = 0.

  Lemma wf_failed_to_app : forall a l1 l2, failed_to sf a (l1 ++ l2) = failed_to sf a l1 ++ failed_to sf a l2.
  Proof. intros. unfold failed_to. apply filter_app. Qed.

  Lemma wf_delivered_app : forall l1 l2, delivered sf (l1 ++ l2) = delivered sf l1 ++ delivered sf l2.
  Proof. intros. unfold delivered. apply filter_app. Qed.

  Lemma wf_from_addr_app : forall a l1 l2, from_addr a (l1 ++ l2) = from_addr a l1 ++ from_addr a l2.
  Proof. intros. unfold from_addr. apply filter_app. Qed.

  Lemma wired_app : forall a r1 r2 at1 at2 s1 s2 st1 st2,
    wired a r1 at1 s1 st1 -> wired a r2 at2 s2 st2 ->
    wired a (r1 ++ r2) (at1 ++ at2) (s1 ++ s2) (st1 ++ st2).
  Proof.
    intros a r1 r2 at1 at2 s1 s2 st1 st2 (A1 & A2 & A3 & A4 & A5 & A6 & A7) (B1 & B2 & B3 & B4 & B5 & B6 & B7).
    unfold wired. rewrite !wf_count_ka_app, wf_bytes_a_app, wf_from_addr_app, !wf_sent_to_app,
      wf_failed_to_app, wf_bytes_of_app, !app_length. repeat split; lia.
  Qed.

  Lemma wired_nil : forall a, wired a [] [] [] [].
  Proof. intro a. unfold wired. cbn. repeat split; reflexivity. Qed.

  Lemma wiring_batch_sec : forall srv lt oi oc now ds a,
    wired a ds (spec_batch_sent H ed_pk ed_sign srv lt oi oc now ds)
          (spec_batch_sent_f H ed_pk ed_sign sf srv lt oi oc now ds)
          (spec_batch_stats_f H ed_pk ed_sign sf srv lt oi oc now ds).
  Proof.
    intros srv lt oi oc now ds a.
    unfold spec_batch_stats_f, spec_batch_sent_f, spec_batch_sent.
    set (ei := spec_replies H ed_pk ed_sign RfcDraft13 lt oi now (accepted srv RfcDraft13 ds)).
    set (ec := spec_replies H ed_pk ed_sign Google lt oc now (accepted srv Google ds)).
    unfold wired.
    rewrite !wf_count_ka_app, !wf_bytes_a_app, wf_delivered_app, !wf_sent_to_app, wf_failed_to_app,
      wf_bytes_of_app, !app_length.
    rewrite (wf_req_stats_resp srv ds a KRfcResp), (wf_req_stats_resp srv ds a KClassicResp),
      (wf_req_stats_resp srv ds a KFailed), (wf_req_stats_resp srv ds a KHealth),
      (wf_req_stats_resp srv ds a KRetried) by reflexivity. rewrite wf_req_stats_bytes.
    pose proof (wf_req_stats_total srv ds a) as Hreq.
    pose proof (wf_resp_count sf RfcDraft13 ei a) as Hi1. pose proof (wf_resp_count sf Google ec a) as Hc1.
    pose proof (wf_resp_bytes sf RfcDraft13 ei a) as Hi2. pose proof (wf_resp_bytes sf Google ec a) as Hc2.
    pose proof (wf_resp_failed sf RfcDraft13 ei a) as Hi3. pose proof (wf_resp_failed sf Google ec a) as Hc3.
    pose proof (wf_delivered_or_failed sf a ei) as Hi4. pose proof (wf_delivered_or_failed sf a ec) as Hc4.
    cbn [resp_kind] in Hi1, Hc1.
    rewrite !(wf_resp_other sf RfcDraft13 ei a KRfcReq), !(wf_resp_other sf RfcDraft13 ei a KClassicReq),
      !(wf_resp_other sf RfcDraft13 ei a KInvalid), !(wf_resp_other sf RfcDraft13 ei a KClassicResp),
      !(wf_resp_other sf RfcDraft13 ei a KHealth), !(wf_resp_other sf RfcDraft13 ei a KRetried)
      by (cbn [resp_kind]; discriminate).
    rewrite !(wf_resp_other sf Google ec a KRfcReq), !(wf_resp_other sf Google ec a KClassicReq),
      !(wf_resp_other sf Google ec a KInvalid), !(wf_resp_other sf Google ec a KRfcResp),
      !(wf_resp_other sf Google ec a KHealth), !(wf_resp_other sf Google ec a KRetried)
      by (cbn [resp_kind]; discriminate).
    repeat split; lia.
  Qed.

  (* ---- the whole drain ---- *)
  Lemma wiring_drain_sec : forall n srv lt oi oc clk a, (1 <= n)%nat ->
    forall fuel k queue, (length queue < fuel)%nat ->
    wired a queue (spec_drain_sent H ed_pk ed_sign fuel n srv lt oi oc clk k queue)
          (spec_drain_sent_f H ed_pk ed_sign sf fuel n srv lt oi oc clk k queue)
          (spec_drain_stats_f H ed_pk ed_sign sf fuel n srv lt oi oc clk k queue).
  Proof.
    intros n srv lt oi oc clk a Hn. induction fuel as [|f IH]; intros k queue Hf; [lia|].
    cbn [spec_drain_sent spec_drain_sent_f spec_drain_stats_f].
    destruct (length queue <? n)%nat eqn:E.
    - rewrite !app_nil_r. rewrite firstn_all2 by lia. apply wiring_batch_sec.
    - apply Nat.ltb_ge in E.
      rewrite <- (firstn_skipn n queue) at 1.
      apply wired_app; [apply wiring_batch_sec|].
      apply IH. rewrite skipn_length. lia.
  Qed.
End Wiring.

Lemma wiring_batch : forall H ed_pk ed_sign sf srv lt oi oc now ds a,
  wired sf a ds (spec_batch_sent H ed_pk ed_sign srv lt oi oc now ds)
        (spec_batch_sent_f H ed_pk ed_sign sf srv lt oi oc now ds)
        (spec_batch_stats_f H ed_pk ed_sign sf srv lt oi oc now ds).
Proof. exact wiring_batch_sec. Qed.

Lemma wiring_drain : forall H ed_pk ed_sign sf n srv lt oi oc clk a, (1 <= n)%nat ->
  forall fuel k queue, (length queue < fuel)%nat ->
  wired sf a queue (spec_drain_sent H ed_pk ed_sign fuel n srv lt oi oc clk k queue)
        (spec_drain_sent_f H ed_pk ed_sign sf fuel n srv lt oi oc clk k queue)
        (spec_drain_stats_f H ed_pk ed_sign sf fuel n srv lt oi oc clk k queue).
Proof. exact wiring_drain_sec. Qed.
