(* CodeResp.v — Responder::make_response as translated from src/responder.rs on this run *)
Require Import RV.Model.Bytes RV.Gen.Tables RV.Model.Tag RV.Model.Message RV.Model.Merkle RV.Model.Request
        RV.Model.Keys RV.Model.Server RV.Model.GenSupport RV.Gen.Code.
Require Import RV.Proofs.CodeLib.
From Coq Require Import ZArith Lia List.
Import ListNotations.
Local Open Scope N_scope.

Lemma gen_make_response_model : forall srep cert_bytes path idx nonce,
  ok_opt (gen_make_response tt srep cert_bytes path idx nonce)
  = ok_opt (make_response srep cert_bytes path idx nonce).
Proof.
  intros. unfold gen_make_response, make_response, get_unwrap. cbv zeta. chain.
Qed.
