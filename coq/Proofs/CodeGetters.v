(* CodeGetters.v — the eleven getters of each configuration source (impl ServerConfig for FileConfig /
   EnvironmentConfig) as translated on this run: each hands over the field of the same name of what the loader
   produced, so what is_valid_config, Server::new and main read THROUGH the getters is what to_settings
   (LoadModel.v) takes directly from the loaded record. *)
Require Import RV.Model.Bytes RV.Model.Message RV.Model.Config RV.Model.ConfigLoad RV.Model.LoadModel RV.Model.GenSupport RV.Gen.Code RV.Proofs.LoadLib.
From Coq Require Import ZArith List Lia.
Import ListNotations.
Local Open Scope Z_scope.

(* one source's getters, in the order of the trait *)
Record getters := mkgetters {
  g_interface : lcfg -> res bytes; g_port : lcfg -> res Z; g_seed : lcfg -> res bytes;
  g_batch : lcfg -> res Z; g_status : lcfg -> res Z; g_kms : lcfg -> res kmsprot;
  g_health : lcfg -> res (option Z); g_cstats : lcfg -> res bool; g_pdir : lcfg -> res (option bytes);
  g_fault : lcfg -> res Z; g_workers : lcfg -> res Z }.

Definition file_getters : getters :=
  mkgetters gen_file_get_interface gen_file_get_port gen_file_get_seed gen_file_get_batch_size
            gen_file_get_status_interval gen_file_get_kms_protection gen_file_get_health_check_port
            gen_file_get_client_stats_enabled gen_file_get_persistence_directory
            gen_file_get_fault_percentage gen_file_get_num_workers.
Definition env_getters : getters :=
  mkgetters gen_env_get_interface gen_env_get_port gen_env_get_seed gen_env_get_batch_size
            gen_env_get_status_interval gen_env_get_kms_protection gen_env_get_health_check_port
            gen_env_get_client_stats_enabled gen_env_get_persistence_directory
            gen_env_get_fault_percentage gen_env_get_num_workers.

(* every getter returns the field of its own name *)
Definition getters_are_fields (g : getters) : Prop := forall c,
  g_interface g c = Ok (lc_interface c) /\ g_port g c = Ok (lc_port c) /\ g_seed g c = Ok (lc_seed c)
  /\ g_batch g c = Ok (lc_batch c) /\ g_status g c = Ok (lc_status c) /\ g_kms g c = Ok (lc_kms c)
  /\ g_health g c = Ok (lc_health c) /\ g_cstats g c = Ok (lc_cstats c) /\ g_pdir g c = Ok (lc_pdir c)
  /\ g_fault g c = Ok (lc_fault c) /\ g_workers g c = Ok (lc_workers c).

Theorem gen_file_getters_are_fields : getters_are_fields file_getters.
Proof. intro c. repeat split; reflexivity. Qed.
Theorem gen_env_getters_are_fields : getters_are_fields env_getters.
Proof. intro c. repeat split; reflexivity. Qed.

(* what the validator looks at, read through a source's getters the way is_valid_config does
   (cfg.port(), cfg.interface().is_empty(), cfg.seed().len(), ...) *)
Definition settings_through (g : getters) (c : lcfg) (dir_state : bytes -> dirinfo)
                            (addr_parses : bytes -> Z -> bool) : res settings :=
  obind (g_port g c) (fun port =>
  obind (g_interface g c) (fun itf =>
  obind (g_seed g c) (fun seed =>
  obind (g_kms g c) (fun kms =>
  obind (g_batch g c) (fun batch =>
  obind (g_fault g c) (fun fault =>
  obind (g_workers g c) (fun workers =>
  obind (g_cstats g c) (fun cstats =>
  obind (g_pdir g c) (fun pdir =>
  Ok (mksettings port (match itf with [] => true | _ => false end) (Z.of_N (lenN seed))
                 (match kms with KPlaintext => KmsPlaintext | _ => KmsEnabled end)
                 batch fault workers cstats
                 (match pdir with Some p => Some (dir_state p) | None => None end)
                 (addr_parses itf port))))))))))).

Theorem gen_getters_settings : forall c ds ap,
  settings_through file_getters c ds ap = Ok (to_settings c ds ap)
  /\ settings_through env_getters c ds ap = Ok (to_settings c ds ap).
Proof. intros. split; reflexivity. Qed.

(* hence the translated validator run on what the getters return is the one the start-up theorems use *)
Theorem gen_validation_through_getters : forall c ds ap,
  obind (settings_through file_getters c ds ap) gen_is_valid_config = gen_is_valid_config (to_settings c ds ap)
  /\ obind (settings_through env_getters c ds ap) gen_is_valid_config = gen_is_valid_config (to_settings c ds ap).
Proof. intros. split; reflexivity. Qed.

(* not vacuous: the getters tell two different loaded configurations apart in every field *)
Example getters_distinguish :
  let a := mklcfg 2002 [x41] [x01] 64 600 KPlaintext None false 0 4 None in
  let b := mklcfg 2003 [] [] 1 1 (KAws [x61]) (Some 8000) true 5 2 (Some [x2f]) in
  g_port file_getters a <> g_port file_getters b /\ g_batch file_getters a <> g_batch file_getters b
  /\ g_fault env_getters a <> g_fault env_getters b /\ g_workers env_getters a <> g_workers env_getters b
  /\ g_health file_getters a <> g_health file_getters b /\ g_status env_getters a <> g_status env_getters b.
Proof. cbv. repeat split; discriminate. Qed.

(* ---- ServerConfig::udp_socket_addr (the trait's provided method, translated on this run): the text handed to
   the socket-address parser is "<interface>:<port in decimal>" of the loaded configuration, a refusal of the
   parser becomes InvalidConfiguration, an address is passed on unchanged *)
Definition addr_text (c : lcfg) : bytes := lc_interface c ++ [x3a] ++ to_dec (lc_port c).

Theorem gen_udp_socket_addr_model : forall parse c,
  gen_udp_socket_addr parse c
  = match parse (addr_text c) with Ok v => Ok v | Err _ => Err InvalidConfiguration | Panic p => Panic p end.
Proof. reflexivity. Qed.

Theorem gen_udp_socket_addr_ok_iff : forall parse c v,
  gen_udp_socket_addr parse c = Ok v <-> parse (addr_text c) = Ok v.
Proof.
  intros parse c v. rewrite gen_udp_socket_addr_model.
  destruct (parse (addr_text c)) as [a|e|p]; split; intro H; try discriminate H; exact H.
Qed.

(* the text after the colon reads back as the loaded port, for every port a u16 holds *)
Theorem addr_text_names_the_port : forall c, 0 <= lc_port c <= tmax_u16 ->
  exists pre, addr_text c = pre ++ to_dec (lc_port c)
              /\ pre = lc_interface c ++ [x3a]
              /\ parse_uint tmax_u16 (to_dec (lc_port c)) = Some (lc_port c).
Proof.
  intros c Hp. exists (lc_interface c ++ [x3a]). split; [|split].
  - unfold addr_text. rewrite <- app_assoc. reflexivity.
  - reflexivity.
  - apply parse_uint_to_dec. exact Hp.
Qed.

Example addr_text_example :
  addr_text (mklcfg 2002 [x31; x2e; x32] [] 64 600 KPlaintext None false 0 4 None)
  = [x31; x2e; x32; x3a; x32; x30; x30; x32].
Proof. vm_compute. reflexivity. Qed.
