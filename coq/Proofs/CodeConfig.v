(* CodeConfig.v — config::is_valid_config as translated from the source on this run, against Model/Config.v *)
Require Import RV.Model.Bytes RV.Gen.Tables RV.Model.Tag RV.Model.Message RV.Model.Config RV.Model.GenSupport RV.Gen.Code.
Require Import RV.Proofs.ConfigFacts.
From Coq Require Import ZArith Bool Lia.
Local Open Scope Z_scope.

Definition to_vres (r : res bool) : vres :=
  match r with Ok b => VOk b | Err _ => VPanic | Panic _ => VPanic end.

(* is_valid_config as translated from src/config/mod.rs today IS the modelled validator *)
Ltac cmp_atom :=
  match goal with
  | |- context [Z.eqb ?a ?b] => destruct (Z.eqb_spec a b)
  | |- context [Z.ltb ?a ?b] => destruct (Z.ltb_spec a b)
  | |- context [Z.leb ?a ?b] => destruct (Z.leb_spec a b)
  end.

(* Two proof scripts: the first follows the shape of the code as it was when this was written (a
   second); the second only relies on the MEANING of the conditions — every comparison is split into
   its cases and arithmetic closes the impossible ones — so an equivalent rewrite of the source
   (`(1..=64).contains(..)`, reordered tests of the same flag, ...) still goes through (~90 s). *)
Lemma gen_is_valid_config_model : forall c, to_vres (gen_is_valid_config c) = is_valid_config c.
Proof.
  intro c. unfold gen_is_valid_config, is_valid_config, SEED_LEN.
  destruct c as [port ie sl kms b f w cs pd ap]; cbn [s_port s_interface_empty s_seed_len s_kms s_batch
    s_fault s_workers s_client_stats s_pdir s_addr_parses].
  first
  [ solve [ destruct (port =? 0); destruct ie; destruct (sl =? 0) eqn:E3; destruct kms;
            destruct (sl =? 32) eqn:E4; destruct (sl <=? 32) eqn:E5;
            destruct ((b <? 1) || (64 <? b)); destruct (50 <? f); destruct (w =? 0);
            destruct cs; try destruct pd as [[ex isd ro]|]; cbn [d_exists d_is_dir d_readonly];
            try destruct ex; try destruct isd; try destruct ro; destruct ap; cbn [negb andb orb obind to_vres];
            try reflexivity; try lia ]
  | destruct ie, kms, cs, ap; try destruct pd as [[ex isd ro]|]; cbn [d_exists d_is_dir d_readonly];
      try destruct ex; try destruct isd; try destruct ro;
      repeat (cmp_atom; try lia; cbn [negb andb orb obind to_vres]); try reflexivity ].
Qed.

(* hence the documented-configuration theorem holds of the translated code itself *)
Lemma gen_is_valid_config_iff : forall c, gen_is_valid_config c = Ok true <-> config_ok c = true.
Proof.
  intro c. rewrite <- valid_config_iff, <- gen_is_valid_config_model.
  destruct (gen_is_valid_config c) as [[|]|e|s]; cbn [to_vres]; split; intro Hx;
    try discriminate Hx; try reflexivity; inversion Hx.
Qed.

(* ------------------------------------------------------------------------------------------
   src/request.rs as translated today (five functions) against Model/Request.v *)
