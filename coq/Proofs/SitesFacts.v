(* SitesFacts.v — today's scan of the sources is covered by the reviewed site map *)
From Coq Require Import List String Bool.
Require Import RV.Gen.Sites RV.Model.SiteMap.
Import ListNotations.

Definition site_eqb (a b : site) : bool :=
  let '(a1, a2, a3, a4) := a in
  let '(b1, b2, b3, b4) := b in
  String.eqb a1 b1 && String.eqb a2 b2 && String.eqb a3 b3 && String.eqb a4 b4.

Definition covered (known : list (site * string)) (s : site) : bool :=
  existsb (fun k => site_eqb s (fst k)) known.

Lemma site_eqb_eq : forall a b, site_eqb a b = true -> a = b.
Proof.
  intros [[[a1 a2] a3] a4] [[[b1 b2] b3] b4] H. unfold site_eqb in H.
  apply andb_true_iff in H. destruct H as [H H4].
  apply andb_true_iff in H. destruct H as [H H3].
  apply andb_true_iff in H. destruct H as [H1 H2].
  apply String.eqb_eq in H1, H2, H3, H4. subst. reflexivity.
Qed.

Lemma log_sites_covered_bool : forallb (covered log_site_map) log_sites = true.
Proof. vm_compute. reflexivity. Qed.

Lemma panic_sites_covered_bool : forallb (covered panic_site_map) panic_sites = true.
Proof. vm_compute. reflexivity. Qed.

(* every logging / printing / formatting call site of today's sources has been reviewed *)
Lemma log_sites_covered : forall s, In s log_sites -> exists note, In (s, note) log_site_map.
Proof.
  intros s Hin. pose proof log_sites_covered_bool as Hb.
  rewrite forallb_forall in Hb. specialize (Hb s Hin). unfold covered in Hb.
  apply existsb_exists in Hb. destruct Hb as [[k note] [Hk He]]. cbn [fst] in He.
  apply site_eqb_eq in He. subst k. exists note. exact Hk.
Qed.

(* every panic-capable expression of today's modelled files has been reviewed *)
Lemma panic_sites_covered : forall s, In s panic_sites -> exists note, In (s, note) panic_site_map.
Proof.
  intros s Hin. pose proof panic_sites_covered_bool as Hb.
  rewrite forallb_forall in Hb. specialize (Hb s Hin). unfold covered in Hb.
  apply existsb_exists in Hb. destruct Hb as [[k note] [Hk He]]. cbn [fst] in He.
  apply site_eqb_eq in He. subst k. exists note. exact Hk.
Qed.

(* ---- numeric literals: the boolean check decides the Prop ---- *)
From Coq Require Import NArith Bool.
Lemma list_eqb_eq : forall A (eqb : A -> A -> bool), (forall x y, eqb x y = true -> x = y) ->
  forall l1 l2, list_eqb eqb l1 l2 = true -> l1 = l2.
Proof.
  intros A eqb He. induction l1 as [|x r IH]; intros [|y r2] Hl; cbn [list_eqb] in Hl; try discriminate Hl.
  - reflexivity.
  - apply andb_true_iff in Hl. destruct Hl as [Hx Hr]. f_equal; [apply He, Hx|apply IH, Hr].
Qed.

Lemma lits_eqb_eq : forall a b, lits_eqb a b = true -> a = b.
Proof.
  unfold lits_eqb. apply list_eqb_eq. intros [f1 l1] [f2 l2] Hx. cbn [fst snd] in Hx.
  apply andb_true_iff in Hx. destruct Hx as [Hf Hl]. f_equal.
  - apply String.eqb_eq, Hf.
  - revert Hl. apply list_eqb_eq. intros x y Hxy. apply N.eqb_eq, Hxy.
Qed.

Lemma literals_okb_sound : forall files, literals_okb files = true -> literals_ok files.
Proof.
  intros files Hb. unfold literals_okb in Hb. unfold literals_ok. apply Forall_forall. intros f Hf.
  rewrite forallb_forall in Hb. apply lits_eqb_eq, Hb, Hf.
Qed.
