(* SitesLits.v — the boolean literal check decides the Prop. Nothing in this file looks at today's scan:
   each property's own `Cnn_literals_reviewed` does, for its own files only. *)
From Coq Require Import List String Bool.
Require Import RV.Gen.Sites RV.Model.SiteMap.
Import ListNotations.

(* ---- numeric literals: the boolean check decides the Prop ---- *)
From Coq Require Import NArith Bool.
Lemma list_eqb_eq : forall A (eqb : A -> A -> bool), (forall x y, eqb x y = true -> x = y) ->
  forall l1 l2, list_eqb eqb l1 l2 = true -> l1 = l2.
Proof.
  intros A eqb He. induction l1 as [|x r IH]; intros [|y r2] Hl; cbn [list_eqb] in Hl; try discriminate Hl.
  - reflexivity.
  - apply andb_true_iff in Hl. destruct Hl as [Hx Hr]. f_equal; [apply He, Hx|apply IH, Hr].
Qed.

Lemma lits_eqb_eq : forall a b, lits_eqb a b = true -> a = b.
Proof.
  unfold lits_eqb. apply list_eqb_eq. intros [f1 l1] [f2 l2] Hx. cbn [fst snd] in Hx.
  apply andb_true_iff in Hx. destruct Hx as [Hf Hl]. f_equal.
  - apply String.eqb_eq, Hf.
  - revert Hl. apply list_eqb_eq. intros x y Hxy. apply N.eqb_eq, Hxy.
Qed.

Lemma literals_okb_sound : forall files, literals_okb files = true -> literals_ok files.
Proof.
  intros files Hb. unfold literals_okb in Hb. unfold literals_ok. apply Forall_forall. intros f Hf.
  rewrite forallb_forall in Hb. apply lits_eqb_eq, Hb, Hf.
Qed.
