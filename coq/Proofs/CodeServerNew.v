(* CodeServerNew.v — three statements of Server::new (src/server.rs) as translated on this run: which recorder a
   worker runs with, how often it publishes, and when it has a health-check listener. *)
Require Import RV.Model.Bytes RV.Gen.Tables RV.Model.Tag RV.Model.Message RV.Model.Config RV.Model.ConfigLoad
        RV.Model.GenSupport RV.Gen.Code.
Require Import RV.Proofs.CodeSockets.
From Coq Require Import NArith ZArith List.
Local Open Scope N_scope.

(* per-client records exactly when client_stats is on, the aggregated counters otherwise *)
Theorem gen_server_new_recorder_model : forall c, gen_server_new_recorder c = Ok (lc_cstats c).
Proof. intros c. unfold gen_server_new_recorder. destruct (lc_cstats c); reflexivity. Qed.

(* the publication period is a tenth of the status interval (nanoseconds) *)
Theorem gen_server_new_stats_freq_model : forall c,
  gen_server_new_stats_freq c = Ok (Z.to_N (lc_status c) * 1000000000 / 10).
Proof. reflexivity. Qed.

(* no health port: no listener; a health port: the listener, bound with both reuse options and registered —
   or the worker does not come up at all (address, bind or registration failure is a panic); never a worker
   that runs with a configured health port and no listener *)
Theorem gen_server_new_health_listener_model : forall addr_ok bind_ok registered c,
  gen_server_new_health_listener addr_ok bind_ok registered c
  = match lc_health c with
    | None => Ok None
    | Some _ => if addr_ok && bind_ok true true && registered then Ok (Some (Bound false true true 1024)) else Panic site_gen
    end.
Proof.
  intros addr_ok bind_ok registered c. unfold gen_server_new_health_listener.
  destruct (lc_health c) as [p|]; cbn [obind]; [|reflexivity].
  destruct addr_ok; cbn [obind andb]; [|reflexivity].
  rewrite gen_bind_health_listener_model. destruct (bind_ok true true); cbn [unwrap_u obind andb]; [|reflexivity].
  destruct registered; reflexivity.
Qed.
