(* CodecDecode.v — decoder-side proofs of the C05 / C06 codec goals *)
Require Import RV.Model.Bytes RV.Gen.Tables RV.Model.Tag RV.Model.Message.
Require Import RV.Spec.RefCodec RV.Spec.CodecGoals.
Require Import RV.Proofs.TagFacts RV.Proofs.BytesFacts.
From Coq Require Import ZArith Lia ZifyN ZifyBool ZifyNat.
Ltac Zify.zify_post_hook ::= Z.div_mod_to_equations.
Local Open Scope N_scope.

(* ------------------------------------------------------------------ *)
(* words: k consecutive little-endian words from the front of a cursor *)

Fixpoint words (k : nat) (cur : bytes) : list N :=
  match k with
  | O => []
  | S k' => rd32 cur :: words k' (skipn 4 cur)
  end.

Lemma words_length : forall k cur, length (words k cur) = k.
Proof. induction k as [|k IH]; intro cur; cbn [words length]; [reflexivity|]. rewrite IH. reflexivity. Qed.

Lemma skipn_4S : forall {A} (k : nat) (l : list A),
  skipn (4 * S k) l = skipn (4 * k) (skipn 4 l).
Proof. intros. rewrite skipn_skipn'. f_equal. lia. Qed.

Lemma words_from_words : forall bs c s, words_from bs s c = words c (skipn (4 * s) bs).
Proof.
  intros bs. unfold words_from. induction c as [|c IH]; intro s; [reflexivity|].
  cbn [seq map words]. f_equal.
  - unfold word_at. f_equal. f_equal. lia.
  - rewrite <- seq_shift, map_map. rewrite skipn_skipn'.
    replace (4 * s + 4)%nat with (4 * S s)%nat by lia. rewrite <- IH.
    apply map_ext. intro i. f_equal. lia.
Qed.

Lemma words_concat : forall k cur, (4 * k <= length cur)%nat ->
  cur = concat (map u32le (words k cur)) ++ skipn (4 * k) cur.
Proof.
  induction k as [|k IH]; intros cur H; [reflexivity|].
  destruct (list_split4 cur) as (a & b & c & d & r & E); [lia|]. subst cur.
  rewrite skipn_4S. cbn [words map concat skipn]. rewrite rd32_4, u32le_rd32.
  cbn [app]. do 4 f_equal. apply IH. cbn [length] in H. lia.
Qed.

Lemma forallb_impl : forall {A} (p q : A -> bool) l,
  (forall x, p x = true -> q x = true) -> forallb p l = true -> forallb q l = true.
Proof.
  intros A p q l Hpq. induction l as [|a l IH]; cbn [forallb]; [reflexivity|].
  intro H. apply andb_true_iff in H. destruct H as [H1 H2].
  rewrite (Hpq _ H1), (IH H2). reflexivity.
Qed.

(* ------------------------------------------------------------------ *)
(* tags: wire words vs numbers *)

Lemma tag_of_wire_some : forall w t, tag_of_wire w = Some t -> w = tag_wire t.
Proof.
  intros w t H. unfold tag_of_wire in H. apply find_some in H. destruct H as [_ H].
  apply bytes_eqb_eq in H. symmetry. exact H.
Qed.

Lemma tag_wire_4 : forall t, exists a b c d, tag_wire t = [a; b; c; d].
Proof. destruct t; cbn [tag_wire]; eauto. Qed.

Lemma tag_of_wire_num : forall a b c d t,
  tag_of_wire [a; b; c; d] = Some t <-> tag_num t = rd32 [a; b; c; d].
Proof.
  intros a b c d t. split; intro H.
  - apply tag_of_wire_some in H. unfold tag_num. rewrite <- H. reflexivity.
  - unfold tag_num in H. destruct (tag_wire_4 t) as (a' & b' & c' & d' & E).
    rewrite E in H. apply rd32_inj4 in H. rewrite <- H, <- E. apply tag_of_wire_wire.
Qed.

Lemma tag_wire_u32le : forall t, tag_wire t = u32le (tag_num t).
Proof.
  intro t. unfold tag_num. destruct (tag_wire_4 t) as (a & b & c & d & E).
  rewrite E. rewrite u32le_rd32. reflexivity.
Qed.

Lemma tag_of_num_some : forall w t, tag_of_num w = Some t -> tag_num t = w.
Proof.
  intros w t H. unfold tag_of_num in H. apply find_some in H. destruct H as [_ H].
  apply N.eqb_eq in H. exact H.
Qed.

Lemma map_opt_tag : forall ws ts, map_opt tag_of_num ws = Some ts <-> map tag_num ts = ws.
Proof.
  induction ws as [|w ws IH]; intros ts; cbn [map_opt].
  - split; intro H.
    + injection H as <-. reflexivity.
    + destruct ts; [reflexivity|discriminate].
  - split; intro H.
    + destruct (tag_of_num w) as [t|] eqn:Ew; [|discriminate].
      destruct (map_opt tag_of_num ws) as [ts'|] eqn:Ews; [|discriminate].
      injection H as <-. cbn [map]. f_equal.
      * apply tag_of_num_some. exact Ew.
      * apply IH. reflexivity.
    + destruct ts as [|t ts]; [discriminate|]. cbn [map] in H. injection H as H1 H2.
      subst w. rewrite tag_of_num_num. apply IH in H2. rewrite H2. reflexivity.
Qed.

Lemma map_tag_num_inj : forall ts ts', map tag_num ts = map tag_num ts' -> ts = ts'.
Proof.
  induction ts as [|t ts IH]; intros [|t' ts'] H; cbn [map] in H; try discriminate; [reflexivity|].
  injection H as H1 H2. apply tag_num_inj in H1. apply IH in H2. subst. reflexivity.
Qed.

(* ------------------------------------------------------------------ *)
(* strictly ascending lists *)

Definition pre (last : option tag) (ws : list N) : list N :=
  match last with Some lt => tag_num lt :: ws | None => ws end.

Lemma asc_cons : forall a b l,
  strictly_ascending (a :: b :: l) = (a <? b) && strictly_ascending (b :: l).
Proof. reflexivity. Qed.

Lemma asc_tail : forall a l, strictly_ascending (a :: l) = true -> strictly_ascending l = true.
Proof.
  intros a [|b l] H; [reflexivity|]. rewrite asc_cons in H.
  apply andb_true_iff in H. tauto.
Qed.

Lemma asc_forall : forall l a, strictly_ascending (a :: l) = true -> Forall (fun x => a < x) l.
Proof.
  induction l as [|b l IH]; intros a H; [constructor|].
  rewrite asc_cons in H. apply andb_true_iff in H. destruct H as [H1 H2].
  apply N.ltb_lt in H1. constructor; [exact H1|].
  apply IH in H2. eapply Forall_impl; [|exact H2]. cbn beta. intros x Hx. lia.
Qed.

Lemma asc_nodup : forall l, strictly_ascending l = true -> NoDup l.
Proof.
  induction l as [|a l IH]; intro H; [constructor|]. constructor.
  - intro Hin. apply asc_forall in H. rewrite Forall_forall in H. apply H in Hin. lia.
  - apply IH. eapply asc_tail. exact H.
Qed.

Lemma asc_pre_cons : forall last w ws,
  strictly_ascending (pre last (w :: ws))
  = (match last with Some lt => tag_num lt <? w | None => true end) && strictly_ascending (w :: ws).
Proof. intros [lt|] w ws; cbn [pre]; [apply asc_cons|reflexivity]. Qed.

Lemma tags_bound : forall ts,
  strictly_ascending (map tag_num ts) = true -> (length ts <= length all_tags)%nat.
Proof.
  intros ts H. apply asc_nodup in H. apply NoDup_map_inv in H.
  apply NoDup_incl_length; [exact H|]. intros t _. apply all_tags_complete.
Qed.

(* ------------------------------------------------------------------ *)
(* sorted lists of naturals and the reference decoder's offset conditions *)

Fixpoint sorted_nat (l : list nat) : bool :=
  match l with
  | a :: ((b :: _) as r) => (a <=? b)%nat && sorted_nat r
  | _ => true
  end.

Lemma sorted_cons : forall a b l,
  sorted_nat (a :: b :: l) = (a <=? b)%nat && sorted_nat (b :: l).
Proof. reflexivity. Qed.

Lemma sorted_head_last : forall l a e, sorted_nat (a :: l ++ [e]) = true -> (a <= e)%nat.
Proof.
  induction l as [|b l IH]; intros a e H; cbn [app] in H; rewrite sorted_cons in H;
    apply andb_true_iff in H; destruct H as [H1 H2]; apply Nat.leb_le in H1.
  - exact H1.
  - apply IH in H2. lia.
Qed.

Lemma nondec_cons : forall a b l,
  non_decreasing (a :: b :: l) = (a <=? b) && non_decreasing (b :: l).
Proof. reflexivity. Qed.

Lemma sorted_bridge_gen : forall l s me, (s <= me)%nat ->
  sorted_nat (s :: map N.to_nat l ++ [me])
  = non_decreasing (N.of_nat s :: l) && forallb (fun o => o <=? N.of_nat me) l.
Proof.
  induction l as [|a l IH]; intros s me Hs.
  - cbn [map app]. rewrite sorted_cons. cbn. apply Nat.leb_le in Hs. rewrite Hs. reflexivity.
  - cbn [map app forallb]. rewrite sorted_cons, nondec_cons.
    destruct (a <=? N.of_nat me) eqn:Ea.
    + rewrite IH by lia. rewrite N2Nat.id.
      replace (s <=? N.to_nat a)%nat with (N.of_nat s <=? a) by lia.
      rewrite <- !andb_assoc. reflexivity.
    + rewrite andb_false_r.
      destruct (sorted_nat (N.to_nat a :: map N.to_nat l ++ [me])) eqn:Es.
      * apply sorted_head_last in Es. lia.
      * apply andb_false_r.
Qed.

Lemma nondec_zero : forall l, non_decreasing (0 :: l) = non_decreasing l.
Proof. intros [|a l]; [reflexivity|]. rewrite nondec_cons. replace (0 <=? a) with true by lia. reflexivity. Qed.

Lemma sorted_bridge : forall l me,
  sorted_nat (0%nat :: map N.to_nat l ++ [me])
  = non_decreasing l && forallb (fun o => o <=? N.of_nat me) l.
Proof.
  intros l me. rewrite sorted_bridge_gen by lia. change (N.of_nat 0) with 0.
  rewrite nondec_zero. reflexivity.
Qed.

(* ------------------------------------------------------------------ *)
(* the offsets loop *)

Definition al (o : N) : bool := o mod 4 =? 0.

Definition ro_ok (k : nat) (cur : bytes) (bl : N) : Prop :=
  (4 * k <= length cur)%nat
  /\ forallb al (words k cur) = true
  /\ forallb (fun o => o <=? bl) (words k cur) = true.

Lemma read_offsets_spec : forall k cur bl,
  match read_offsets k cur bl with
  | Ok (os, r) => ro_ok k cur bl /\ os = words k cur /\ r = skipn (4 * k) cur
  | Err _ => ~ ro_ok k cur bl
  | Panic _ => False
  end.
Proof.
  induction k as [|k IH]; intros cur bl.
  - cbn [read_offsets]. unfold ro_ok. cbn [words forallb]. repeat split. lia.
  - destruct cur as [|a [|b [|c [|d rest]]]];
      try (cbn [read_offsets]; unfold ro_ok; cbn [length]; intros [H _]; lia).
    cbn [read_offsets]. rewrite <- (rd32_4 a b c d rest).
    unfold ro_ok. rewrite skipn_4S. cbn [words forallb skipn].
    set (off := rd32 (a :: b :: c :: d :: rest)).
    fold (al off).
    destruct (al off) eqn:Eal; cbn [negb andb].
    2:{ intros (_ & H & _). discriminate H. }
    destruct (bl <? off) eqn:Ebl.
    { intros (_ & _ & H). apply andb_true_iff in H. destruct H as [H _]. lia. }
    specialize (IH rest bl). unfold ro_ok in IH.
    destruct (read_offsets k rest bl) as [[os r]|e|s]; cbn [obind].
    + destruct IH as ((Hl & Ha & Hb) & Hos & Hr). subst os r.
      repeat split; try assumption.
      * cbn [length]. lia.
      * apply andb_true_iff. split; [lia|exact Hb].
    + intros (Hl & Ha & Hb). apply IH. apply andb_true_iff in Hb.
      repeat split; try tauto. cbn [length] in Hl. lia.
    + exact IH.
Qed.

(* ------------------------------------------------------------------ *)
(* the tags loop *)

Definition rt_ok (k : nat) (cur : bytes) (last : option tag) (ts : list tag) : Prop :=
  (4 * k <= length cur)%nat
  /\ map tag_num ts = words k cur
  /\ strictly_ascending (pre last (words k cur)) = true.

Lemma read_tags_spec : forall k cur last,
  match read_tags k cur last with
  | Ok (ts, r) => rt_ok k cur last ts /\ r = skipn (4 * k) cur
  | Err _ => forall ts, ~ rt_ok k cur last ts
  | Panic _ => False
  end.
Proof.
  induction k as [|k IH]; intros cur last.
  - cbn [read_tags]. unfold rt_ok. cbn [words map]. repeat split; [lia|].
    destruct last; reflexivity.
  - destruct cur as [|a [|b [|c [|d rest]]]];
      try (cbn [read_tags]; unfold rt_ok; cbn [length]; intros ts [H _]; lia).
    cbn [read_tags]. unfold rt_ok. rewrite skipn_4S. cbn [words skipn].
    rewrite (rd32_4 a b c d rest).
    destruct (tag_of_wire [a; b; c; d]) as [t|] eqn:Ew.
    2:{ intros [|t ts] (_ & Hm & _); cbn [map] in Hm; [discriminate|].
        injection Hm as H1 _. apply tag_of_wire_num in H1. congruence. }
    apply tag_of_wire_num in Ew. rewrite <- Ew.
    assert (Hbad : (match last with Some lt => tag_le t lt | None => false end)
                   = negb (match last with Some lt => tag_num lt <? tag_num t | None => true end)).
    { destruct last as [lt|]; [|reflexivity]. rewrite tag_le_numeric. lia. }
    rewrite Hbad. clear Hbad.
    destruct (match last with Some lt => tag_num lt <? tag_num t | None => true end) eqn:Elast;
      cbn [negb].
    2:{ intros ts (_ & _ & Ha). rewrite asc_pre_cons, Elast in Ha. discriminate Ha. }
    specialize (IH rest (Some t)). unfold rt_ok in IH.
    destruct (read_tags k rest (Some t)) as [[ts r]|e|s]; cbn [obind].
    + destruct IH as ((Hl & Hm & Ha) & Hr). subst r. repeat split.
      * cbn [length]. lia.
      * cbn [map]. rewrite Hm. reflexivity.
      * rewrite asc_pre_cons, Elast. exact Ha.
    + intros [|t' ts] (Hl & Hm & Ha); cbn [map] in Hm; [discriminate|].
      injection Hm as H1 H2. apply tag_num_inj in H1. subst t'.
      apply (IH ts). repeat split.
      * cbn [length] in Hl. lia.
      * exact H2.
      * rewrite asc_pre_cons in Ha. apply andb_true_iff in Ha. exact (proj2 Ha).
    + exact IH.
Qed.

(* ------------------------------------------------------------------ *)
(* the value loop *)

Lemma slice_ok : forall (site : nat) (bs : bytes) (a b : nat), (a <= b)%nat -> (b <= length bs)%nat ->
  @slice error site bs a b = Ok (firstn (b - a) (skipn a bs)).
Proof.
  intros site bs a b H1 H2. unfold slice.
  replace (b <? a)%nat with false by lia. replace (length bs <? b)%nat with false by lia.
  reflexivity.
Qed.

Lemma last_tag_snoc : forall acc t v, last_tag (acc ++ [(t, v)]) = Some t.
Proof. intros. unfold last_tag. rewrite rev_app_distr. reflexivity. Qed.

Lemma add_field_ok : forall acc t v ws,
  strictly_ascending (pre (last_tag acc) (tag_num t :: ws)) = true ->
  add_field acc t v = Ok (acc ++ [(t, v)]).
Proof.
  intros acc t v ws H. unfold add_field. destruct (last_tag acc) as [lt|]; [|reflexivity].
  cbn [pre] in H. rewrite asc_cons in H. apply andb_true_iff in H. destruct H as [H _].
  rewrite tag_le_numeric. replace (tag_num t <=? tag_num lt) with false by lia. reflexivity.
Qed.

Lemma read_values_spec : forall bs he me, (he + me = length bs)%nat ->
  forall offs s tags acc,
  length tags = S (length offs) ->
  strictly_ascending (pre (last_tag acc) (map tag_num tags)) = true ->
  match read_values bs he tags (s :: offs) (offs ++ [me]) acc with
  | Ok m => sorted_nat (s :: offs ++ [me]) = true
            /\ m = acc ++ combine tags (cuts (skipn he bs) s offs)
  | Err _ => sorted_nat (s :: offs ++ [me]) = false
  | Panic _ => False
  end.
Proof.
  intros bs he me Hsum. induction offs as [|o offs IH]; intros s tags acc Hlen Hasc.
  - destruct tags as [|t [|t' ts]]; cbn [length] in Hlen; try discriminate.
    cbn [app read_values map] in *. rewrite sorted_cons. cbn [sorted_nat]. rewrite andb_true_r.
    replace (length bs <? he + me)%nat with false by lia. cbn [orb].
    destruct (he + me <? he + s)%nat eqn:E.
    + lia.
    + rewrite slice_ok by lia. cbn [obind].
      rewrite (add_field_ok _ _ _ _ Hasc). cbn [obind]. split; [lia|].
      cbn [cuts combine]. do 3 f_equal.
      rewrite skipn_skipn'. apply firstn_skipn_all. lia.
  - destruct tags as [|t ts]; cbn [length] in Hlen; [discriminate|].
    cbn [app read_values map] in *. rewrite sorted_cons.
    destruct (length bs <? he + o)%nat eqn:E1; cbn [orb].
    { destruct (sorted_nat (o :: offs ++ [me])) eqn:Es; [|apply andb_false_r].
      apply sorted_head_last in Es. lia. }
    destruct (he + o <? he + s)%nat eqn:E2.
    { replace (s <=? o)%nat with false by lia. reflexivity. }
    rewrite slice_ok by lia. cbn [obind].
    rewrite (add_field_ok _ _ _ _ Hasc). cbn [obind].
    rewrite asc_pre_cons in Hasc. apply andb_true_iff in Hasc. destruct Hasc as [_ Hasc].
    specialize (IH o ts (acc ++ [(t, firstn (he + o - (he + s)) (skipn (he + s) bs))])).
    rewrite last_tag_snoc in IH. specialize (IH ltac:(lia) Hasc).
    destruct (read_values bs he ts (o :: offs) (offs ++ [me]) _) as [m|e|p].
    + destruct IH as [Hs Hm]. split.
      * rewrite Hs. replace (s <=? o)%nat with true by lia. reflexivity.
      * rewrite Hm. rewrite <- app_assoc. cbn [app cuts combine]. do 3 f_equal.
        rewrite skipn_skipn'. f_equal. lia.
    + rewrite IH. apply andb_false_r.
    + exact IH.
Qed.

(* ------------------------------------------------------------------ *)
(* the common shape of an accepted non-empty message *)

Definition shape_core (bs : bytes) (k : nat) (offs : list N) (tags : list tag) (m : msg) : Prop :=
  (k <> 0)%nat
  /\ (8 * k <= length bs)%nat
  /\ offs = words (k - 1) (skipn 4 bs)
  /\ map tag_num tags = words k (skipn (4 * k) bs)
  /\ strictly_ascending (map tag_num tags) = true
  /\ forallb al offs = true
  /\ non_decreasing offs = true
  /\ forallb (fun o => o <=? N.of_nat (length bs - 8 * k)) offs = true
  /\ m = combine tags (cuts (skipn (8 * k) bs) 0 (map N.to_nat offs)).

Lemma shape_unique : forall bs k offs tags m offs' tags' m',
  shape_core bs k offs tags m -> shape_core bs k offs' tags' m' -> m = m'.
Proof.
  intros bs k offs tags m offs' tags' m'
    (_ & _ & Ho & Ht & _ & _ & _ & _ & Hm) (_ & _ & Ho' & Ht' & _ & _ & _ & _ & Hm').
  rewrite <- Ht' in Ht. apply map_tag_num_inj in Ht. subst. reflexivity.
Qed.

Lemma shape_lengths : forall bs k offs tags m, shape_core bs k offs tags m ->
  length tags = k /\ length offs = (k - 1)%nat /\ length m = k.
Proof.
  intros bs k offs tags m (Hk & _ & Ho & Ht & _ & _ & _ & _ & Hm).
  assert (H1 : length tags = k).
  { rewrite <- (map_length tag_num), Ht. apply words_length. }
  assert (H2 : length offs = (k - 1)%nat) by (subst offs; apply words_length).
  repeat split; try assumption.
  subst m. rewrite combine_length.
  assert (Hc : forall p s l, length (cuts p s l) = S (length l)).
  { intros p s l. revert s. induction l as [|o l IH]; intro s; cbn [cuts length]; [reflexivity|].
    rewrite IH. reflexivity. }
  rewrite Hc, map_length. lia.
Qed.

Lemma single_spec : forall bs,
  match single_tag_message bs with
  | Ok m => exists tags, shape_core bs 1 [] tags m
  | Err _ => forall offs tags m, ~ shape_core bs 1 offs tags m
  | Panic _ => False
  end.
Proof.
  intro bs. unfold single_tag_message.
  destruct (length bs <? 8)%nat eqn:E.
  { intros offs tags m (_ & H & _). lia. }
  unfold site_slice_tag. rewrite slice_ok by lia. cbn [obind].
  destruct (list_split4 (skipn 4 bs)) as (a & b & c & d & r & E4).
  { rewrite skipn_length. lia. }
  rewrite E4. change (firstn (8 - 4) (a :: b :: c :: d :: r)) with [a; b; c; d].
  destruct (tag_of_wire [a; b; c; d]) as [t|] eqn:Ew.
  - cbn. exists [t]. unfold shape_core. change (4 * 1)%nat with 4%nat. change (8 * 1)%nat with 8%nat.
    rewrite E4. cbn [words map Nat.sub]. rewrite rd32_4.
    apply tag_of_wire_num in Ew. rewrite Ew.
    repeat split; try reflexivity; lia.
  - intros offs tags m (_ & _ & _ & Ht & _). change (4 * 1)%nat with 4%nat in Ht.
    rewrite E4 in Ht. cbn [words] in Ht. destruct tags as [|t tags]; [discriminate|].
    cbn [map] in Ht. injection Ht as H1 _.
    apply (proj2 (tag_of_wire_num a b c d t)) in H1. congruence.
Qed.

Lemma multi_spec : forall num_tags bs, (2 <= N.to_nat num_tags)%nat ->
  match multi_tag_message num_tags bs with
  | Ok m => exists offs tags, shape_core bs (N.to_nat num_tags) offs tags m
  | Err _ => lenN bs < two32 -> forall offs tags m, ~ shape_core bs (N.to_nat num_tags) offs tags m
  | Panic _ => False
  end.
Proof.
  intros num_tags bs Hk. unfold multi_tag_message. cbv zeta.
  set (k := N.to_nat num_tags) in *.
  assert (Hcur : skipn (4 * (k - 1)) (skipn 4 bs) = skipn (4 * k) bs).
  { rewrite skipn_skipn'. f_equal. lia. }
  pose proof (read_offsets_spec (k - 1) (skipn 4 bs) (as_u32 (lenN bs))) as Hro.
  destruct (read_offsets (k - 1) (skipn 4 bs) (as_u32 (lenN bs))) as [[offs cur1]|e|s];
    cbn [obind].
  - destruct Hro as ((Hl1 & Hal & _) & Hoffs & Hcur1). rewrite Hcur in Hcur1. subst cur1.
    rewrite <- Hoffs in Hal.
    rewrite skipn_length in Hl1.
    pose proof (read_tags_spec k (skipn (4 * k) bs) None) as Hrt.
    destruct (read_tags k (skipn (4 * k) bs) None) as [[tags cur2]|e|s]; cbn [obind].
    + destruct Hrt as ((Hl2 & Hm & Ha) & Hcur2). rewrite skipn_length in Hl2.
      cbn [pre] in Ha.
      assert (Hhe : (length bs - length cur2 = 8 * k)%nat).
      { subst cur2. rewrite !skipn_length. lia. }
      rewrite Hhe.
      assert (Hlt : length tags = S (length (map N.to_nat offs))).
      { rewrite map_length, <- (map_length tag_num tags), Hm, Hoffs, !words_length. lia. }
      rewrite <- Hm in Ha.
      pose proof (read_values_spec bs (8 * k) (length bs - 8 * k) ltac:(lia)
                    (map N.to_nat offs) 0%nat tags [] Hlt Ha) as Hrv.
      destruct (read_values bs (8 * k) tags (0%nat :: map N.to_nat offs)
                  (map N.to_nat offs ++ [(length bs - 8 * k)%nat]) []) as [m|e|s].
      * destruct Hrv as [Hs Hmm]. rewrite sorted_bridge in Hs.
        apply andb_true_iff in Hs. destruct Hs as [Hs1 Hs2].
        exists offs, tags. unfold shape_core. cbn [app] in Hmm.
        repeat split; try assumption; try lia.
      * intros _ offs' tags' m' (_ & _ & Ho' & _ & _ & _ & Hnd & Hle & _).
        rewrite <- Hoffs in Ho'. subst offs'.
        rewrite sorted_bridge, Hnd, Hle in Hrv. discriminate Hrv.
      * exact Hrv.
    + intros _ offs' tags' m' (_ & Hl & _ & Ht & Ha & _).
      apply (Hrt tags'). unfold rt_ok. cbn [pre]. rewrite <- Ht.
      repeat split; try assumption. rewrite skipn_length. lia.
    + exact Hrt.
  - intros H32 offs' tags' m' (_ & Hl & Ho' & _ & _ & Hal & _ & Hle & _).
    apply Hro. unfold ro_ok. rewrite <- Ho'. repeat split.
    + rewrite skipn_length. lia.
    + exact Hal.
    + eapply forallb_impl; [|exact Hle]. cbn beta. intros o Ho.
      rewrite as_u32_small by exact H32. unfold lenN. lia.
  - exact Hro.
Qed.

(* ------------------------------------------------------------------ *)
(* from_bytes: soundness, completeness, totality *)

Definition accepted (bs : bytes) (m : msg) : Prop :=
  (rd32 bs = 0 /\ m = [])
  \/ exists k offs tags, rd32 bs = N.of_nat k /\ shape_core bs k offs tags m.

Lemma lenN_mod4 : forall (bs : bytes),
  (lenN bs mod 4 =? 0) = (Nat.modulo (length bs) 4 =? 0)%nat.
Proof. intro bs. unfold lenN. lia. Qed.

Lemma from_bytes_sound : forall bs m, from_bytes bs = Ok m ->
  (4 <= length bs)%nat /\ (Nat.modulo (length bs) 4 = 0)%nat /\ accepted bs m.
Proof.
  intros bs m H. unfold from_bytes in H.
  destruct (length bs <? 4)%nat eqn:E4; [discriminate|].
  rewrite lenN_mod4 in H.
  destruct (Nat.modulo (length bs) 4 =? 0)%nat eqn:Emod; cbn [negb] in H; [|discriminate].
  split; [lia|]. split; [lia|]. cbv zeta in H.
  destruct (rd32 bs =? 0) eqn:E0.
  { injection H as <-. left. split; [lia|reflexivity]. }
  destruct (rd32 bs =? 1) eqn:E1.
  { pose proof (single_spec bs) as Hs. rewrite H in Hs. destruct Hs as [tags Hs].
    right. exists 1%nat, [], tags. split; [lia|exact Hs]. }
  destruct (rd32 bs <=? 1024) eqn:E2; [|discriminate].
  pose proof (multi_spec (rd32 bs) bs ltac:(lia)) as Hs. rewrite H in Hs.
  destruct Hs as (offs & tags & Hs).
  right. exists (N.to_nat (rd32 bs)), offs, tags. split; [lia|exact Hs].
Qed.

Lemma from_bytes_complete : forall bs m, lenN bs < two32 ->
  (4 <= length bs)%nat -> (Nat.modulo (length bs) 4 = 0)%nat -> accepted bs m ->
  from_bytes bs = Ok m.
Proof.
  intros bs m H32 H4 Hmod Hacc. unfold from_bytes.
  replace (length bs <? 4)%nat with false by lia.
  rewrite lenN_mod4. replace (Nat.modulo (length bs) 4 =? 0)%nat with true by lia.
  cbn [negb]. cbv zeta.
  destruct Hacc as [[H0 Hm]|(k & offs & tags & Hk & Hs)].
  { rewrite H0. subst m. reflexivity. }
  pose proof Hs as (Hk0 & _ & _ & _ & Hasc & _).
  apply tags_bound in Hasc. destruct (shape_lengths _ _ _ _ _ Hs) as (Hlt & _ & _).
  rewrite Hlt in Hasc. clear Hlt. change (length all_tags) with 18%nat in Hasc.
  replace (rd32 bs =? 0) with false by lia.
  destruct (rd32 bs =? 1) eqn:E1.
  { assert (k = 1%nat) by lia. subst k.
    pose proof (single_spec bs) as Hss.
    destruct (single_tag_message bs) as [m'|e|s].
    - destruct Hss as [tags' Hss]. f_equal. eapply shape_unique; eassumption.
    - exfalso. eapply Hss. exact Hs.
    - contradiction. }
  replace (rd32 bs <=? 1024) with true by lia.
  assert (Ek : N.to_nat (rd32 bs) = k) by lia.
  pose proof (multi_spec (rd32 bs) bs ltac:(lia)) as Hss. rewrite Ek in Hss.
  destruct (multi_tag_message (rd32 bs) bs) as [m'|e|s].
  - destruct Hss as (offs' & tags' & Hss). f_equal. eapply shape_unique; eassumption.
  - exfalso. eapply Hss; [exact H32|exact Hs].
  - contradiction.
Qed.

Lemma decode_total : goal_decode_total.
Proof.
  intro bs. unfold from_bytes.
  destruct (length bs <? 4)%nat; [reflexivity|].
  destruct (negb (lenN bs mod 4 =? 0)); [reflexivity|]. cbv zeta.
  destruct (rd32 bs =? 0) eqn:E0; [reflexivity|].
  destruct (rd32 bs =? 1) eqn:E1.
  { pose proof (single_spec bs) as Hs. destruct (single_tag_message bs); [reflexivity|reflexivity|contradiction]. }
  destruct (rd32 bs <=? 1024) eqn:E2; [|reflexivity].
  pose proof (multi_spec (rd32 bs) bs ltac:(lia)) as Hs.
  destruct (multi_tag_message (rd32 bs) bs); [reflexivity|reflexivity|contradiction].
Qed.
Print Assumptions decode_total.

(* ------------------------------------------------------------------ *)
(* the reference decoder accepts exactly the same shape *)

Lemma lenN_payload : forall (bs : bytes) (k : nat),
  lenN (skipn (8 * k) bs) = N.of_nat (length bs - 8 * k).
Proof. intros. unfold lenN. rewrite skipn_length. reflexivity. Qed.

Lemma ref_decode_sound : forall bs m, ref_decode bs = Some m ->
  (4 <= length bs)%nat /\ (Nat.modulo (length bs) 4 = 0)%nat /\ accepted bs m.
Proof.
  intros bs m H. unfold ref_decode in H. cbv zeta in H.
  change (word_at bs 0) with (rd32 bs) in H.
  destruct (length bs <? 4)%nat eqn:E4; [discriminate|].
  destruct (Nat.modulo (length bs) 4 =? 0)%nat eqn:Emod; cbn [negb] in H; [|discriminate].
  split; [lia|]. split; [lia|].
  destruct (rd32 bs =? 0) eqn:E0.
  { injection H as <-. left. split; [lia|reflexivity]. }
  destruct (lenN bs <? 8 * rd32 bs) eqn:E8; [discriminate|].
  rewrite !words_from_words in H. change (4 * 1)%nat with 4%nat in H.
  rewrite lenN_payload in H.
  set (k := N.to_nat (rd32 bs)) in *.
  destruct (map_opt tag_of_num (words k (skipn (4 * k) bs))) as [tags|] eqn:Emo; [|discriminate].
  match type of H with (if ?c then _ else _) = _ => destruct c eqn:Ec end; [|discriminate].
  injection H as <-.
  apply map_opt_tag in Emo.
  apply andb_true_iff in Ec. destruct Ec as [Ec Hle].
  apply andb_true_iff in Ec. destruct Ec as [Ec Hnd].
  apply andb_true_iff in Ec. destruct Ec as [Hasc Hal].
  right. exists k, (words (k - 1) (skipn 4 bs)), tags. split; [lia|].
  unfold shape_core. rewrite Emo. unfold lenN in E8.
  repeat split; try assumption; try lia.
Qed.

Lemma ref_decode_complete : forall bs m,
  (4 <= length bs)%nat -> (Nat.modulo (length bs) 4 = 0)%nat -> accepted bs m ->
  ref_decode bs = Some m.
Proof.
  intros bs m H4 Hmod Hacc. unfold ref_decode. cbv zeta.
  change (word_at bs 0) with (rd32 bs).
  replace (length bs <? 4)%nat with false by lia.
  replace (Nat.modulo (length bs) 4 =? 0)%nat with true by lia. cbn [negb].
  destruct Hacc as [[H0 Hm]|(k & offs & tags & Hk & Hs)].
  { rewrite H0. subst m. reflexivity. }
  destruct Hs as (Hk0 & Hl & Ho & Ht & Hasc & Hal & Hnd & Hle & Hm).
  replace (rd32 bs =? 0) with false by lia.
  replace (lenN bs <? 8 * rd32 bs) with false by (unfold lenN; lia).
  replace (N.to_nat (rd32 bs)) with k by lia.
  rewrite !words_from_words. change (4 * 1)%nat with 4%nat.
  rewrite lenN_payload. rewrite <- Ho, <- Ht.
  rewrite (proj2 (map_opt_tag _ _) eq_refl).
  rewrite Hasc. fold al. rewrite Hal, Hnd, Hle. cbn [andb]. subst m. reflexivity.
Qed.

Lemma decode_agrees : goal_decode_agrees.
Proof.
  intros bs H32. destruct (from_bytes bs) as [m|e|s] eqn:E; cbn [ok_opt].
  - apply from_bytes_sound in E. destruct E as (H4 & Hmod & Hacc).
    symmetry. apply ref_decode_complete; assumption.
  - destruct (ref_decode bs) as [m|] eqn:R; [|reflexivity].
    apply ref_decode_sound in R. destruct R as (H4 & Hmod & Hacc).
    rewrite (from_bytes_complete bs m H32 H4 Hmod Hacc) in E. discriminate E.
  - pose proof (decode_total bs) as Ht. rewrite E in Ht. discriminate Ht.
Qed.
Print Assumptions decode_agrees.

(* ------------------------------------------------------------------ *)
(* tag count *)

Lemma tagcount : goal_tagcount.
Proof.
  intros bs m H. apply from_bytes_sound in H. destruct H as (_ & _ & Hacc).
  destruct Hacc as [[_ Hm]|(k & offs & tags & Hk & Hs)].
  { subst m. cbn [length]. lia. }
  destruct (shape_lengths _ _ _ _ _ Hs) as (Hlt & _ & Hlm).
  destruct Hs as (_ & _ & _ & _ & Hasc & _).
  apply tags_bound in Hasc. lia.
Qed.
Print Assumptions tagcount.

(* ------------------------------------------------------------------ *)
(* values are the payload *)

Lemma cuts_length : forall p l s, length (cuts p s l) = S (length l).
Proof.
  intros p l. induction l as [|o l IH]; intro s; cbn [cuts length]; [reflexivity|].
  rewrite IH. reflexivity.
Qed.

Lemma concat_cuts : forall (p : bytes) offs s e, sorted_nat (s :: offs ++ [e]) = true ->
  concat (cuts p s offs) = skipn s p.
Proof.
  intros p. induction offs as [|o offs IH]; intros s e H.
  - cbn [cuts concat]. apply app_nil_r.
  - cbn [app] in H. rewrite sorted_cons in H. apply andb_true_iff in H. destruct H as [H1 H2].
    cbn [cuts concat]. rewrite (IH o e H2).
    replace (skipn o p) with (skipn (o - s) (skipn s p)).
    + apply firstn_skipn.
    + rewrite skipn_skipn'. f_equal. lia.
Qed.

Lemma shape_sorted : forall bs k offs tags m, shape_core bs k offs tags m ->
  sorted_nat (0%nat :: map N.to_nat offs ++ [(length bs - 8 * k)%nat]) = true.
Proof.
  intros bs k offs tags m (_ & _ & _ & _ & _ & _ & Hnd & Hle & _).
  rewrite sorted_bridge, Hnd, Hle. reflexivity.
Qed.

Lemma shape_values : forall bs k offs tags m, shape_core bs k offs tags m ->
  concat (map snd m) = skipn (8 * k) bs.
Proof.
  intros bs k offs tags m Hs.
  pose proof (shape_sorted _ _ _ _ _ Hs) as Hsorted.
  destruct (shape_lengths _ _ _ _ _ Hs) as (Hlt & Hlo & _).
  destruct Hs as (Hk0 & _ & _ & _ & _ & _ & _ & _ & Hm). subst m.
  rewrite map_snd_combine.
  - rewrite (concat_cuts _ _ _ _ Hsorted). reflexivity.
  - rewrite cuts_length, map_length. lia.
Qed.

Lemma values_are_payload : goal_values_are_payload.
Proof.
  intros bs m H Hne. apply from_bytes_sound in H. destruct H as (_ & _ & Hacc).
  destruct Hacc as [[_ Hm]|(k & offs & tags & Hk & Hs)]; [contradiction|].
  destruct (shape_lengths _ _ _ _ _ Hs) as (_ & _ & Hlm). rewrite Hlm.
  eapply shape_values. exact Hs.
Qed.
Print Assumptions values_are_payload.

(* ------------------------------------------------------------------ *)
(* canonical re-encoding *)

Lemma words_lt : forall k cur, Forall (fun x => x < two32) (words k cur).
Proof.
  induction k as [|k IH]; intro cur; cbn [words]; constructor; [apply rd32_lt|apply IH].
Qed.

Lemma enc_tags_combine : forall tags (vs : list bytes), length tags = length vs ->
  enc_tags (combine tags vs) = concat (map tag_wire tags).
Proof.
  induction tags as [|t tags IH]; intros [|v vs] H; cbn [length] in H; try discriminate;
    [reflexivity|].
  cbn [combine enc_tags map concat]. rewrite IH by lia. reflexivity.
Qed.

Lemma enc_values_concat : forall m, enc_values m = concat (map snd m).
Proof.
  induction m as [|[t v] m IH]; [reflexivity|]. cbn [enc_values map concat snd].
  rewrite IH. reflexivity.
Qed.

Lemma sum_lengths_concat : forall m, sum_lengths m = length (concat (map snd m)).
Proof.
  induction m as [|[t v] m IH]; [reflexivity|]. cbn [sum_lengths map concat snd].
  rewrite app_length, IH. reflexivity.
Qed.

Lemma concat_tag_wire : forall tags,
  concat (map tag_wire tags) = concat (map u32le (map tag_num tags)).
Proof.
  induction tags as [|t tags IH]; [reflexivity|]. cbn [map concat].
  rewrite IH, tag_wire_u32le. reflexivity.
Qed.

Lemma enc_offsets_cuts : forall (p : bytes) offs o ts,
  length ts = S (length offs) ->
  sorted_nat (N.to_nat o :: map N.to_nat offs ++ [length p]) = true ->
  Forall (fun x => x < two32) (o :: offs) ->
  enc_offsets (N.to_nat o) (combine ts (cuts p (N.to_nat o) (map N.to_nat offs)))
  = concat (map u32le (o :: offs)).
Proof.
  intros p. induction offs as [|o' offs IH]; intros o ts Hlen Hs HF.
  - destruct ts as [|t [|t' ts]]; cbn [length] in Hlen; try discriminate.
    cbn [map cuts combine enc_offsets concat].
    rewrite N2Nat.id, as_u32_small; [reflexivity|]. inversion HF; assumption.
  - destruct ts as [|t ts]; cbn [length] in Hlen; [discriminate|].
    cbn [map app] in Hs. rewrite sorted_cons in Hs. apply andb_true_iff in Hs.
    destruct Hs as [Hs1 Hs2]. pose proof (sorted_head_last _ _ _ Hs2) as Hle.
    inversion HF as [|x l Ho HF']; subst x l.
    cbn [map cuts combine enc_offsets]. rewrite firstn_length, skipn_length.
    replace (N.to_nat o + Nat.min (N.to_nat o' - N.to_nat o) (length p - N.to_nat o))%nat
      with (N.to_nat o') by lia.
    rewrite IH; try assumption; [|lia].
    rewrite N2Nat.id, as_u32_small by exact Ho. reflexivity.
Qed.

Lemma enc_offs_top : forall (p : bytes) offs tags,
  length tags = S (length offs) ->
  sorted_nat (0%nat :: map N.to_nat offs ++ [length p]) = true ->
  Forall (fun x => x < two32) offs ->
  (if (1 <? length (combine tags (cuts p 0 (map N.to_nat offs))))%nat
   then match combine tags (cuts p 0 (map N.to_nat offs)) with
        | (_, v0) :: r => Ok (enc_offsets (length v0) r)
        | [] => Panic site_values0
        end
   else Ok []) = (Ok (concat (map u32le offs)) : res bytes).
Proof.
  intros p offs tags Hlen Hs HF.
  destruct tags as [|t0 ts]; cbn [length] in Hlen; [discriminate|].
  destruct offs as [|o1 offs].
  - destruct ts; [|discriminate]. reflexivity.
  - cbn [map app] in Hs. rewrite sorted_cons in Hs. apply andb_true_iff in Hs.
    destruct Hs as [_ Hs2]. pose proof (sorted_head_last _ _ _ Hs2) as Hle.
    cbn [map cuts combine length]. rewrite combine_length, cuts_length, map_length.
    cbn [length] in Hlen.
    replace (1 <? S (Nat.min (length ts) (S (length offs))))%nat with true by lia.
    rewrite firstn_length, skipn_length. f_equal.
    replace (Nat.min (N.to_nat o1 - 0) (length p - 0))%nat with (N.to_nat o1) by lia.
    apply enc_offsets_cuts; try assumption. lia.
Qed.

Lemma shape_bytes : forall bs k offs tags m, shape_core bs k offs tags m ->
  bs = u32le (rd32 bs) ++ concat (map u32le offs)
       ++ concat (map tag_wire tags) ++ skipn (8 * k) bs.
Proof.
  intros bs k offs tags m (Hk0 & Hl & Ho & Ht & _).
  rewrite concat_tag_wire, Ht, Ho.
  rewrite u32le_rd32_firstn by lia.
  rewrite <- (firstn_skipn 4 bs) at 1. f_equal.
  rewrite (words_concat (k - 1) (skipn 4 bs)) at 1 by (rewrite skipn_length; lia). f_equal.
  rewrite skipn_skipn'. replace (4 + 4 * (k - 1))%nat with (4 * k)%nat by lia.
  rewrite (words_concat k (skipn (4 * k) bs)) at 1 by (rewrite skipn_length; lia). f_equal.
  rewrite skipn_skipn'. f_equal. lia.
Qed.

Lemma canonical : goal_canonical.
Proof.
  intros bs m _ H Hne. apply from_bytes_sound in H. destruct H as (_ & _ & Hacc).
  destruct Hacc as [[_ Hm]|(k & offs & tags & Hk & Hs)]; [contradiction|].
  pose proof (shape_sorted _ _ _ _ _ Hs) as Hsorted.
  pose proof (shape_values _ _ _ _ _ Hs) as Hvals.
  pose proof (shape_bytes _ _ _ _ _ Hs) as Hbytes.
  destruct (shape_lengths _ _ _ _ _ Hs) as (Hlt & Hlo & Hlm).
  pose proof Hs as (Hk0 & Hl & Ho & Ht & _ & _ & _ & _ & Hm).
  assert (Hsize : encoded_size m = length bs).
  { unfold encoded_size. rewrite sum_lengths_concat, Hvals, skipn_length, Hlm.
    destruct (k <? 2)%nat eqn:E; lia. }
  unfold encode. cbv zeta. rewrite Hsize, Hlm.
  rewrite enc_values_concat, Hvals.
  rewrite <- Hk, as_u32_rd32.
  assert (Htags : enc_tags m = concat (map tag_wire tags)).
  { rewrite Hm. apply enc_tags_combine. rewrite cuts_length, map_length. lia. }
  rewrite Htags.
  assert (Hoffs : (if (1 <? k)%nat
                   then match m with
                        | (_, v0) :: r => Ok (enc_offsets (length v0) r)
                        | [] => Panic site_values0
                        end
                   else Ok []) = (Ok (concat (map u32le offs)) : res bytes)).
  { rewrite <- Hlm. rewrite Hm. apply enc_offs_top.
    - lia.
    - rewrite skipn_length. exact Hsorted.
    - rewrite Ho. apply words_lt. }
  rewrite Hoffs. cbn [obind]. rewrite <- Hbytes. rewrite Nat.eqb_refl. reflexivity.
Qed.
Print Assumptions canonical.
