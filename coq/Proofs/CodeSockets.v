(* CodeSockets.v — the two socket set-ups as translated on this run: both the worker's UDP socket and the
   health check's TCP listener are bound with SO_REUSEADDR and SO_REUSEPORT set, which is what lets every
   worker bind the same port (the `reuseport = true` of the start-up model, Model/Process.v). *)
Require Import RV.Model.Bytes RV.Gen.Tables RV.Model.Tag RV.Model.Message RV.Model.GenSupport RV.Gen.Code.
From Coq Require Import NArith List.
Local Open Scope N_scope.

Theorem gen_bind_socket_model : forall addr_ok bind_ok,
  gen_bind_socket addr_ok bind_ok tt
  = if addr_ok then (if bind_ok true true then Ok (Bound false true true 0) else Err tt) else Panic site_gen.
Proof. intros [|] bind_ok; cbn; [destruct (bind_ok true true); reflexivity|reflexivity]. Qed.

Theorem gen_bind_health_listener_model : forall bind_ok a,
  gen_bind_health_listener bind_ok a
  = if bind_ok true true then Ok (Bound (match a with AddrV4 => false | AddrV6 => true end) true true 1024) else Err tt.
Proof. intros bind_ok [|]; cbn; destruct (bind_ok true true); reflexivity. Qed.

(* whatever is bound, is bound with both options on *)
Corollary sockets_bound_with_reuseport : forall addr_ok bind_ok a v6 ra rp bl,
  (gen_bind_socket addr_ok bind_ok tt = Ok (Bound v6 ra rp bl) \/ gen_bind_health_listener bind_ok a = Ok (Bound v6 ra rp bl)) ->
  ra = true /\ rp = true.
Proof.
  intros addr_ok bind_ok a v6 ra rp bl [H|H].
  - rewrite gen_bind_socket_model in H. destruct addr_ok; [|discriminate H].
    destruct (bind_ok true true); [|discriminate H]. injection H as _ <- <- _. split; reflexivity.
  - rewrite gen_bind_health_listener_model in H. destruct (bind_ok true true); [|discriminate H].
    injection H as _ <- <- _. split; reflexivity.
Qed.
