(* CodeClientOut.v — the statement of the client's main that turns a response's midpoint into the (seconds,
   nanoseconds) it hands to chrono for printing, as translated on this run. *)
Require Import RV.Model.Bytes RV.Gen.Tables RV.Model.Tag RV.Model.Message RV.Model.GenSupport RV.Gen.Code.
From Coq Require Import ZArith NArith Lia ZifyN ZifyBool.
Local Open Scope N_scope.
Ltac Zify.zify_post_hook ::= Z.div_mod_to_equations.

(* classic: the midpoint is in microseconds; the instant printed is exactly the signed midpoint — whole seconds
   plus the remaining microseconds as nanoseconds (below 10^9, so the cast to u32 loses nothing) — and the
   checked subtraction cannot underflow; IETF: the midpoint is in seconds *)
Theorem gen_client_midpoint_to_time_model : forall v m,
  gen_client_midpoint_to_time v m
  = Ok (match v with
        | Google => (m / 1000000, (m mod 1000000) * 1000)
        | RfcDraft13 => (m, 0)
        end).
Proof.
  intros [|] m; unfold gen_client_midpoint_to_time; cbn [obind]; [|reflexivity].
  change (10 ^ 6) with 1000000. change (10 ^ 3) with 1000.
  unfold sub_chk.
  assert (H1 : (m <? m / 1000000 * 1000000) = false) by (apply N.ltb_ge; lia).
  rewrite H1. cbn [obind].
  assert (H2 : m - m / 1000000 * 1000000 = m mod 1000000) by lia.
  rewrite H2. unfold as_u32, two32.
  rewrite (N.mod_small (m mod 1000000 * 1000)) by lia. reflexivity.
Qed.

Corollary gen_client_time_is_the_midpoint : forall v m s ns,
  gen_client_midpoint_to_time v m = Ok (s, ns) ->
  match v with
  | Google => s * 1000000000 + ns = m * 1000 /\ ns < 1000000000
  | RfcDraft13 => s = m /\ ns = 0
  end.
Proof.
  intros v m s ns H. rewrite gen_client_midpoint_to_time_model in H. destruct v; injection H as <- <-.
  - split; lia.
  - split; reflexivity.
Qed.
