(* CodeMsgEnc.v — the building / encoding half of src/message.rs as translated on this run (add_field,
   get_field, encoded_size, encode, encode_framed, calculate_padding_length) against Model/Message.v.
   Inside message.rs a message is the pair of vectors `tags` / `values`; the model's message is the
   list of pairs: `combine tags values` relates them. *)
Require Import RV.Model.Bytes RV.Gen.Tables RV.Model.Tag RV.Model.Message RV.Model.GenSupport RV.Gen.Code.
Require Import RV.Proofs.TagFacts RV.Proofs.BytesFacts RV.Proofs.CodeLib.
From Coq Require Import ZArith Lia ZifyN ZifyBool ZifyNat List.
Import ListNotations.
Ltac Zify.zify_post_hook ::= Z.div_mod_to_equations.
Local Open Scope N_scope.


Lemma gen_add_field_model : forall tags values t v, length tags = length values ->
  gen_add_field tags values t v = omap unzip (add_field (combine tags values) t v).
Proof.
  intros tags values t v Hl. unfold gen_add_field, add_field.
  rewrite km_last_combine by exact Hl.
  destruct (last_opt tags) as [lt|].
  - destruct (tag_le t lt); cbn [obind omap]; [reflexivity|].
    rewrite km_unzip_snoc, km_unzip_combine by exact Hl. reflexivity.
  - cbn [obind omap]. rewrite km_unzip_snoc, km_unzip_combine by exact Hl. reflexivity.
Qed.

(* add_field keeps the two vectors the same length *)
Lemma gen_add_field_lengths : forall tags values t v tags' values', length tags = length values ->
  gen_add_field tags values t v = Ok (tags', values') -> length tags' = length values'.
Proof.
  intros tags values t v tags' values' Hl H. rewrite gen_add_field_model in H by exact Hl.
  destruct (add_field (combine tags values) t v) as [m| |]; cbn [omap] in H; try discriminate.
  injection H as <- <-. rewrite !map_length. reflexivity.
Qed.

(* ------------------------------------------------------------------ get_field *)

Lemma km_get_loop : forall (tags : list tag) (values : list bytes) t (k : nat) (pre : list bytes),
  length pre = k -> length tags = length values ->
  match loop_ret (combine (map N.of_nat (seq k (length tags))) tags)
        (fun x_it : N * tag => let '(i, self_tag) := x_it in
           if tag_eqb t self_tag
           then Some (obind (vec_idx_p site_gen (pre ++ values) i) (fun e => Ok (Some e)))
           else None)
  with Some r => r | None => Ok None end
  = Ok (get_field (combine tags values) t).
Proof.
  induction tags as [|u tags IH]; intros [|v values] t k pre Hk Hl; cbn [length] in Hl; try discriminate.
  - reflexivity.
  - cbn [length seq map combine loop_ret get_field].
    destruct (tag_eqb t u).
    + unfold vec_idx_p. rewrite Nat2N.id, nth_error_app2 by lia.
      replace (k - length pre)%nat with 0%nat by lia. reflexivity.
    + specialize (IH values t (S k) (pre ++ [v])). rewrite <- app_assoc in IH. cbn [app] in IH.
      apply IH; [rewrite app_length; cbn; lia | lia].
Qed.

Lemma gen_get_field_model : forall tags values t, length tags = length values ->
  gen_get_field tags values t = Ok (get_field (combine tags values) t).
Proof.
  intros tags values t Hl. unfold gen_get_field, enumerate_n.
  exact (km_get_loop tags values t 0 [] eq_refl Hl).
Qed.

(* ------------------------------------------------------------------ encoded_size, encode *)
Require Import RV.Proofs.CodecEncode.

Lemma km_sum_len : forall (tags : list tag) (values : list bytes), length tags = length values ->
  sum_len values = N.of_nat (sum_lengths (combine tags values)).
Proof.
  induction tags as [|t tags IH]; intros [|v values] Hl; cbn [length] in Hl; try discriminate; [reflexivity|].
  cbn [sum_len fold_right combine sum_lengths]. fold (sum_len values). rewrite (IH values) by lia.
  unfold lenN. lia.
Qed.


Lemma gen_encoded_size_model : forall tags values, length tags = length values ->
  gen_encoded_size tags values = Ok (N.of_nat (encoded_size (combine tags values))).
Proof.
  intros tags values Hl. unfold gen_encoded_size, encoded_size, sub_chk.
  rewrite (km_sum_len tags values Hl), km_combine_length by exact Hl.
  unfold lenN. set (n := length tags). set (sl := sum_lengths _).
  destruct (N.of_nat n <? 2) eqn:E2.
  - cbn [obind]. replace (n <? 2)%nat with true by lia. f_equal. lia.
  - replace (N.of_nat n <? 1) with false by lia. cbn [obind].
    replace (n <? 2)%nat with false by lia. f_equal. lia.
Qed.

Lemma km_fold_tags : forall (tags : list tag) (values : list bytes) out, length tags = length values ->
  fold_res (fun (o : bytes) (tg : tag) => Ok (o ++ tag_wire tg)) tags out
  = Ok (out ++ enc_tags (combine tags values)).
Proof.
  induction tags as [|t tags IH]; intros [|v values] out Hl; cbn [length] in Hl; try discriminate.
  - cbn. rewrite app_nil_r. reflexivity.
  - cbn [fold_res obind combine enc_tags]. rewrite (IH values) by lia. rewrite <- app_assoc. reflexivity.
Qed.

Lemma km_fold_values : forall (tags : list tag) (values : list bytes) out, length tags = length values ->
  fold_res (fun (o : bytes) (v : bytes) => Ok (o ++ v)) values out
  = Ok (out ++ enc_values (combine tags values)).
Proof.
  induction tags as [|t tags IH]; intros [|v values] out Hl; cbn [length] in Hl; try discriminate.
  - cbn. rewrite app_nil_r. reflexivity.
  - cbn [fold_res obind combine enc_values]. rewrite (IH values) by lia. rewrite <- app_assoc. reflexivity.
Qed.

Lemma km_fold_offsets : forall (tags : list tag) (values : list bytes) out s, length tags = length values ->
  fold_res (fun '(o, sum) (v : bytes) => Ok (o ++ u32le (as_u32 sum), sum + lenN v)) values (out, N.of_nat s)
  = Ok (out ++ enc_offsets s (combine tags values), N.of_nat (s + sum_lengths (combine tags values))).
Proof.
  induction tags as [|t tags IH]; intros [|v values] out s Hl; cbn [length] in Hl; try discriminate.
  - cbn. rewrite app_nil_r, Nat.add_0_r. reflexivity.
  - cbn [fold_res obind combine enc_offsets sum_lengths].
    replace (N.of_nat s + lenN v) with (N.of_nat (s + length v)) by (unfold lenN; lia).
    rewrite (IH values) by lia. rewrite <- app_assoc. do 3 f_equal. lia.
Qed.

Lemma km_out_length : forall m offs,
  length offs = (if (length m <? 2)%nat then 0 else 4 * (length m - 1))%nat ->
  length (u32le (as_u32 (N.of_nat (length m))) ++ offs ++ enc_tags m ++ enc_values m) = encoded_size m.
Proof.
  intros m offs Ho. rewrite !app_length, length_u32le, enc_tags_length, enc_values_length, Ho.
  unfold encoded_size. destruct (length m <? 2)%nat; lia.
Qed.

Lemma gen_encode_model : forall tags values, length tags = length values ->
  gen_encode tags values = encode (combine tags values).
Proof.
  intros tags values Hl. unfold gen_encode, encode.
  rewrite gen_encoded_size_model by exact Hl. cbn [obind].
  rewrite km_combine_length by exact Hl. cbn [app].
  destruct tags as [|t0 tags]; destruct values as [|v0 values]; cbn [length] in Hl; try discriminate.
  - (* the empty message *)
    cbn [length lenN]. change (N.of_nat 0) with 0. replace (1 <? 0) with false by reflexivity.
    cbn [obind fold_res combine Nat.ltb Nat.leb enc_tags enc_values app].
    reflexivity.
  - cbn [length combine]. unfold lenN at 1. cbn [length].
    destruct (1 <? N.of_nat (S (length tags))) eqn:E1.
    + replace (1 <? S (length tags))%nat with true by lia.
      unfold vec_idx_p. change (N.to_nat 0) with 0%nat. cbn [nth_error obind].
      unfold slice_l. replace ((lenN (v0 :: values) <? 1) || (lenN (v0 :: values) <? lenN (v0 :: values))) with false
        by (unfold lenN; cbn [length]; lia).
      change (N.to_nat 1) with 1%nat. cbn [skipn obind].
      replace (N.to_nat (lenN (v0 :: values) - 1)) with (length values) by (unfold lenN; cbn [length]; lia).
      rewrite firstn_all.
      unfold lenN at 1. rewrite (km_fold_offsets tags values _ (length v0)) by lia. cbn [obind].
      rewrite (km_fold_tags (t0 :: tags) (v0 :: values)) by (cbn [length]; lia). cbn [obind].
      rewrite (km_fold_values (t0 :: tags) (v0 :: values)) by (cbn [length]; lia). cbn [obind].
      cbn [combine]. rewrite <- !app_assoc.
      set (m := (t0, v0) :: combine tags values).
      set (offs := enc_offsets (length v0) (combine tags values)).
      assert (Hlen : length (u32le (as_u32 (N.of_nat (length m))) ++ offs ++ enc_tags m ++ enc_values m) = encoded_size m).
      { apply km_out_length. subst offs m. rewrite enc_offsets_length. cbn [length].
        rewrite km_combine_length by lia. replace (S (length tags) <? 2)%nat with false by lia. lia. }
      assert (Hm : length m = S (length tags)) by (subst m; cbn [length]; rewrite km_combine_length by lia; reflexivity).
      unfold lenN. cbn [length]. rewrite <- Hm. rewrite Hlen. rewrite N.eqb_refl, Nat.eqb_refl. reflexivity.
    + replace (1 <? S (length tags))%nat with false by lia. cbn [obind].
      rewrite (km_fold_tags (t0 :: tags) (v0 :: values)) by (cbn [length]; lia). cbn [obind].
      rewrite (km_fold_values (t0 :: tags) (v0 :: values)) by (cbn [length]; lia). cbn [obind].
      cbn [combine app]. rewrite <- !app_assoc.
      set (m := (t0, v0) :: combine tags values).
      assert (Hm : length m = S (length tags)) by (subst m; cbn [length]; rewrite km_combine_length by lia; reflexivity).
      assert (Hlen : length (u32le (as_u32 (N.of_nat (length m))) ++ [] ++ enc_tags m ++ enc_values m) = encoded_size m).
      { apply km_out_length. rewrite Hm. replace (S (length tags) <? 2)%nat with true by lia. reflexivity. }
      cbn [app] in Hlen. unfold lenN. cbn [length]. rewrite <- Hm. rewrite Hlen. rewrite N.eqb_refl, Nat.eqb_refl. reflexivity.
Qed.

Lemma gen_encode_framed_model : forall tags values, length tags = length values ->
  gen_encode_framed tags values = encode_framed (combine tags values).
Proof.
  intros tags values Hl. unfold gen_encode_framed, encode_framed.
  rewrite gen_encode_model by exact Hl.
  destruct (encode (combine tags values)); cbn [obind app]; reflexivity.
Qed.

(* calculate_padding_length: `padding_needed -= 4` underflows (a panic in a debug build) for a
   one-field message whose encoded size is 1021..1023; the model's saturating subtraction is only
   claimed outside that case, and the translated code is shown to panic inside it. *)
Lemma gen_calculate_padding_length_model : forall tags values, length tags = length values ->
  (length tags <> 1 \/ 1024 <= encoded_size (combine tags values) \/ encoded_size (combine tags values) + 4 <= 1024)%nat ->
  gen_calculate_padding_length tags values
  = Ok (N.of_nat (calculate_padding_length (combine tags values))).
Proof.
  intros tags values Hl Hcase. unfold gen_calculate_padding_length, calculate_padding_length, sub_chk.
  rewrite gen_encoded_size_model by exact Hl. cbn [obind].
  rewrite km_combine_length by exact Hl.
  set (sz := encoded_size _) in *. unfold lenN.
  destruct (1024 <=? N.of_nat sz) eqn:E.
  - replace (1024 <=? sz)%nat with true by lia. reflexivity.
  - replace (1024 <=? sz)%nat with false by lia.
    replace (1024 <? N.of_nat sz) with false by lia. cbn [obind].
    destruct (N.of_nat (length tags) =? 1) eqn:E1.
    + replace (length tags =? 1)%nat with true by lia.
      replace (1024 - N.of_nat sz <? 4) with false by lia. cbn [obind]. f_equal. lia.
    + replace (length tags =? 1)%nat with false by lia. cbn [obind]. f_equal. lia.
Qed.

Lemma gen_calculate_padding_length_underflow : forall tags values, length tags = length values ->
  length tags = 1%nat -> (1020 < encoded_size (combine tags values) < 1024)%nat ->
  gen_calculate_padding_length tags values = Panic site_gen.
Proof.
  intros tags values Hl H1 Hsz. unfold gen_calculate_padding_length, sub_chk.
  rewrite gen_encoded_size_model by exact Hl. cbn [obind].
  set (sz := encoded_size _) in *. unfold lenN. rewrite H1.
  replace (1024 <=? N.of_nat sz) with false by lia.
  replace (1024 <? N.of_nat sz) with false by lia. cbn [obind].
  change (N.of_nat 1 =? 1) with true. cbv iota.
  replace (1024 - N.of_nat sz <? 4) with true by lia. reflexivity.
Qed.

Lemma gen_encoder_model : forall tags values, length tags = length values ->
    gen_encode tags values = encode (combine tags values)
    /\ gen_encode_framed tags values = encode_framed (combine tags values)
    /\ gen_encoded_size tags values = Ok (N.of_nat (encoded_size (combine tags values))).
Proof.
  intros tags values Hl. split; [|split].
  - exact (gen_encode_model tags values Hl).
  - exact (gen_encode_framed_model tags values Hl).
  - exact (gen_encoded_size_model tags values Hl).
Qed.

Lemma gen_fields_model : forall tags values t v, length tags = length values ->
    gen_add_field tags values t v = omap unzip (add_field (combine tags values) t v)
    /\ gen_get_field tags values t = Ok (get_field (combine tags values) t).
Proof.
  intros tags values t v Hl. split.
  - exact (gen_add_field_model tags values t v Hl).
  - exact (gen_get_field_model tags values t Hl).
Qed.
