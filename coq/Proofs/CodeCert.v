(* CodeCert.v — OnlineKey::make_dele and LongTermKey::make_cert as translated from the source on this run *)
Require Import RV.Model.Bytes RV.Gen.Tables RV.Model.Tag RV.Model.Message RV.Model.Merkle RV.Model.Request
        RV.Model.Keys RV.Model.Server RV.Model.GenSupport RV.Gen.Code.
Require Import RV.Proofs.CodeLib.
From Coq Require Import ZArith Lia List.
Import ListNotations.
Local Open Scope N_scope.

Lemma gen_make_dele_model : forall ed_pk ok,
  ok_opt (gen_make_dele ed_pk ok) = ok_opt (make_dele ed_pk ok).
Proof. intros. unfold gen_make_dele, make_dele. cbv zeta. chain. Qed.

Lemma gen_make_cert_model : forall ed_pk ed_sign lt v ok,
  ok_opt (gen_make_cert ed_pk ed_sign lt v ok) = ok_opt (make_cert ed_pk ed_sign v lt ok).
Proof.
  intros ed_pk ed_sign lt v ok. unfold gen_make_cert, make_cert, gen_make_dele, make_dele. cbv zeta. chain.
Qed.
