(* MerkleModel.v — proofs of the C04 goals of Spec/MerkleGoals.v about Model/Merkle.v *)
Require Import RV.Model.Bytes RV.Gen.Tables RV.Model.Merkle RV.Spec.RefMerkle RV.Spec.MerkleGoals.
From Coq Require Import Lia ZArith ZifyNat ZifyBool ZifyN.
Ltac Zify.zify_post_hook ::= Z.div_mod_to_equations.

(* ------------------------------------------------------------------ *)
(* arithmetic bridges N <-> nat *)

Lemma mk_even_of_nat : forall j, N.even (N.of_nat j) = Nat.even j.
Proof.
  intros j. apply eq_true_iff_eq. rewrite N.even_spec, Nat.even_spec. split.
  - intros [k Hk]. exists (N.to_nat k). lia.
  - intros [k Hk]. exists (N.of_nat k). lia.
Qed.

Lemma mk_div2_of_nat : forall j, N.div2 (N.of_nat j) = N.of_nat (j / 2).
Proof.
  intros j. rewrite N.div2_div, Nat2N.inj_div. reflexivity.
Qed.

(* ------------------------------------------------------------------ *)
(* hashing: the model's tweaked hashes are the spec's *)

Lemma mk_hashv_len : forall H v x, HashLen H -> length (hashv H v x) = node_len v.
Proof.
  intros H v x HL. unfold hashv. rewrite firstn_length, HL. destruct v; cbn; lia.
Qed.

Lemma mk_hash_leaf_spec : forall H v d, hash_leaf H v d = s_leaf (hashv H v) d.
Proof. reflexivity. Qed.

Lemma mk_hash_nodes_spec : forall H v a b, hash_nodes H v a b = s_node (hashv H v) a b.
Proof. reflexivity. Qed.

Lemma mk_zero_node_spec : forall v, zero_node v = s_zero (node_len v).
Proof. reflexivity. Qed.

Lemma mk_climb_spec : forall H v p x j,
  climb H v x (N.of_nat j) p = s_climb (hashv H v) x j p.
Proof.
  intros H v p. induction p as [|q r IH]; intros x j; [reflexivity|].
  cbn [climb s_climb]. rewrite mk_even_of_nat, mk_div2_of_nat, IH.
  destruct (Nat.even j); reflexivity.
Qed.

Lemma mk_s_climb_len : forall h w p x j,
  (forall y, length (h y) = w) -> length x = w -> length (s_climb h x j p) = w.
Proof.
  intros h w p. induction p as [|q r IH]; intros x j Hh Hx; [exact Hx|].
  cbn [s_climb]. apply IH; [exact Hh|]. destruct (Nat.even j); apply Hh.
Qed.

Lemma mk_finalize_ok : forall v d, length d = node_len v -> finalize v d = Ok d.
Proof.
  intros v d Hd. destruct v; [reflexivity|].
  cbn in Hd. unfold finalize, slice.
  replace (length d <? 32)%nat with false by (symmetry; apply Nat.ltb_ge; lia).
  cbn [Nat.ltb Nat.leb orb skipn Nat.sub].
  rewrite firstn_all2 by lia. reflexivity.
Qed.

Lemma root_from_paths_spec : goal_root_from_paths.
Proof.
  unfold goal_root_from_paths. intros H v j d p HL.
  unfold root_from_paths.
  destruct (length p mod node_len v =? 0)%nat; cbn [negb]; [|reflexivity].
  rewrite mk_climb_spec. unfold s_recompute. rewrite mk_hash_leaf_spec.
  apply mk_finalize_ok. apply mk_s_climb_len.
  - intros y. apply mk_hashv_len, HL.
  - apply mk_hashv_len, HL.
Qed.

(* ------------------------------------------------------------------ *)
(* the functional tree *)

Lemma mk_list_pair_ind : forall (A : Type) (P : list A -> Prop),
  P [] -> (forall a, P [a]) -> (forall a b r, P r -> P (a :: b :: r)) -> forall l, P l.
Proof.
  intros A P H0 H1 H2.
  fix IH 1. intros [|a [|b r]]; [exact H0|apply H1|apply H2, IH].
Qed.

Section Ref.
  Variable h : bytes -> bytes.
  Variable w : nat.

  Lemma mk_pairup_length : forall l, length (pairup h w l) = ((length l + 1) / 2)%nat.
  Proof.
    induction l as [| a | a b r IH] using mk_list_pair_ind; [reflexivity|reflexivity|].
    cbn [pairup length]. rewrite IH. lia.
  Qed.

  Lemma mk_sibling_SS : forall a b r i,
    sibling w (a :: b :: r) (S (S i)) = sibling w r i.
  Proof.
    intros a b r i. unfold sibling.
    change (Nat.even (S (S i))) with (Nat.even i).
    destruct (Nat.even i) eqn:E; [reflexivity|].
    destruct i as [|i]; [discriminate E|reflexivity].
  Qed.

  Lemma mk_div2_SS : forall i, (S (S i) / 2 = S (i / 2))%nat.
  Proof. intros i. lia. Qed.

  Lemma mk_pairup_nth : forall d l i, (i < length l)%nat ->
    nth (i / 2) (pairup h w l) d =
      if Nat.even i then s_node h (nth i l d) (sibling w l i)
      else s_node h (sibling w l i) (nth i l d).
  Proof.
    intros d l.
    induction l as [| a | a b r IH] using mk_list_pair_ind; intros i Hi.
    - cbn in Hi. lia.
    - cbn in Hi. assert (i = 0)%nat by lia. subst i. reflexivity.
    - destruct i as [|[|i]]; [reflexivity|reflexivity|].
      rewrite mk_div2_SS, mk_sibling_SS.
      change (Nat.even (S (S i))) with (Nat.even i).
      cbn [pairup nth]. apply IH. cbn in Hi. lia.
  Qed.

  Lemma mk_climb_path_root : forall d f l i, (i < length l)%nat -> (length l <= f)%nat ->
    s_climb h (nth i l d) i (path_of h w f l i) = root_of h w f l.
  Proof.
    intros d f. induction f as [|f IH]; intros l i Hi Hf; [lia|].
    destruct l as [|a [|b r]].
    - cbn in Hi. lia.
    - cbn in Hi. assert (i = 0)%nat by lia. subst i. reflexivity.
    - remember (a :: b :: r) as l eqn:El.
      assert (Hp : path_of h w (S f) l i = sibling w l i :: path_of h w f (pairup h w l) (i / 2))
        by (subst l; reflexivity).
      assert (Hr : root_of h w (S f) l = root_of h w f (pairup h w l))
        by (subst l; reflexivity).
      rewrite Hp, Hr. cbn [s_climb].
      rewrite <- (mk_pairup_nth d l i Hi).
      assert (Hl2 : (2 <= length l)%nat) by (subst l; cbn; lia).
      apply IH; rewrite mk_pairup_length. all: lia.
  Qed.
End Ref.

Lemma complete : goal_complete.
Proof.
  unfold goal_complete, s_recompute, s_path, s_root. intros h w ls i Hi.
  replace (s_leaf h (nth i ls [])) with (nth i (map (s_leaf h) ls) (s_leaf h [])).
  - apply mk_climb_path_root; rewrite map_length; [exact Hi|apply le_n].
  - apply map_nth.
Qed.

(* ------------------------------------------------------------------ *)
(* parity helpers *)

Lemma mk_even_mod2 : forall n, Nat.even n = (n mod 2 =? 0)%nat.
Proof.
  intros n. destruct (Nat.even n) eqn:E; symmetry.
  - apply Nat.eqb_eq. apply Nat.even_spec in E. destruct E as [m ->]. lia.
  - apply Nat.eqb_neq. intro Hm.
    assert (Nat.even n = true) by (apply Nat.even_spec; exists (n / 2)%nat; lia).
    congruence.
Qed.

Lemma mk_odd_mod2 : forall n, Nat.odd n = (n mod 2 =? 1)%nat.
Proof.
  intros n. unfold Nat.odd. rewrite mk_even_mod2.
  destruct (n mod 2 =? 0)%nat eqn:E0; destruct (n mod 2 =? 1)%nat eqn:E1; cbn; try reflexivity; lia.
Qed.

(* ------------------------------------------------------------------ *)
(* the level-vector model against the functional tree *)

Section Model.
  Variable H : bytes -> bytes.
  Variable v : version.
  Hypothesis HL : HashLen H.
  Local Notation h := (hashv H v).
  Local Notation w := (node_len v).

  Definition mk_empties (ll : list (list bytes)) : Prop := Forall (fun l => l = []) ll.
  Definition mk_wide (l : list bytes) : Prop := Forall (fun x => length x = w) l.

  Lemma mk_h_len : forall x, length (h x) = w.
  Proof. intros x. apply mk_hashv_len, HL. Qed.

  (* reset *)
  Lemma mk_reset_shape : forall t, levels t <> [] ->
    exists above, reset t = mktree ([] :: above) (tver t) /\ mk_empties above.
  Proof.
    intros [lv tv] Hne. cbn in Hne. destruct lv as [|l0 r]; [contradiction|].
    exists (map (fun _ => []) r). split; [reflexivity|].
    unfold mk_empties. apply Forall_forall. intros x Hx.
    apply in_map_iff in Hx. destruct Hx as [y [Hy _]]. symmetry. exact Hy.
  Qed.

  (* push_all *)
  Lemma mk_push_all : forall ls l0 r,
    push_all H (mktree (l0 :: r) v) ls = Ok (mktree ((l0 ++ map (s_leaf h) ls) :: r) v).
  Proof.
    induction ls as [|d ls IH]; intros l0 r.
    - cbn. rewrite app_nil_r. reflexivity.
    - cbn [push_all push_leaf levels tver obind map]. rewrite IH.
      rewrite <- app_assoc. reflexivity.
  Qed.

  (* padding of an odd level *)
  Definition mk_padded (l : list bytes) : list bytes :=
    if Nat.odd (length l) then l ++ [s_zero w] else l.

  Lemma mk_pairup_padded : forall l, pairup h w (mk_padded l) = pairup h w l.
  Proof.
    induction l as [| a | a b r IH] using mk_list_pair_ind; [reflexivity|reflexivity|].
    unfold mk_padded in *. cbn [length].
    change (Nat.odd (S (S (length r)))) with (Nat.odd (length r)).
    destruct (Nat.odd (length r)); [|reflexivity].
    cbn [app pairup]. f_equal. exact IH.
  Qed.

  Lemma mk_padded_length : forall l, length (mk_padded l) = (2 * ((length l + 1) / 2))%nat.
  Proof.
    intros l. unfold mk_padded. rewrite mk_odd_mod2.
    destruct (length l mod 2 =? 1)%nat eqn:E.
    - rewrite app_length. cbn [length]. lia.
    - lia.
  Qed.

  Lemma mk_pairup_wide : forall l, mk_wide (pairup h w l).
  Proof.
    induction l as [| a | a b r IH] using mk_list_pair_ind.
    - constructor.
    - constructor; [apply mk_h_len|constructor].
    - cbn [pairup]. constructor; [apply mk_h_len|exact IH].
  Qed.

  (* the inner loop *)
  Lemma mk_nth_error_mid0 : forall (pre : list bytes) a l, nth_error (pre ++ a :: l) (length pre) = Some a.
  Proof.
    intros pre a l. rewrite nth_error_app2 by lia. rewrite Nat.sub_diag. reflexivity.
  Qed.

  Lemma mk_nth_error_mid1 : forall (pre : list bytes) a b l,
    nth_error (pre ++ a :: b :: l) (length pre + 1) = Some b.
  Proof.
    intros pre a b l. rewrite nth_error_app2 by lia.
    replace (length pre + 1 - length pre)%nat with 1%nat by lia. reflexivity.
  Qed.

  Lemma mk_pair_hashes : forall k i pre l,
    length pre = (2 * i)%nat -> length l = (2 * k)%nat ->
    pair_hashes H v k i (pre ++ l) = Ok (pairup h w l).
  Proof.
    induction k as [|k IH]; intros i pre l Hpre Hl.
    - destruct l; [reflexivity|cbn in Hl; lia].
    - destruct l as [|a [|b l]]; [cbn in Hl; lia|cbn in Hl; lia|].
      cbn [pair_hashes]. rewrite <- Hpre.
      rewrite mk_nth_error_mid0, mk_nth_error_mid1.
      replace (pre ++ a :: b :: l) with ((pre ++ [a; b]) ++ l)
        by (rewrite <- app_assoc; reflexivity).
      rewrite IH.
      + reflexivity.
      + rewrite app_length. cbn [length]. lia.
      + cbn [length] in Hl. lia.
  Qed.

  (* the padded lower levels that compute_root leaves behind *)
  Fixpoint mk_plevels (g : nat) (l : list bytes) : list (list bytes) :=
    match g with
    | O => []
    | S g' =>
        match l with
        | [] => []
        | [_] => []
        | _ => mk_padded l :: mk_plevels g' (pairup h w l)
        end
    end.

  Lemma mk_root_loop : forall fuel g below cur above,
    mk_empties above -> mk_wide cur -> cur <> [] ->
    (length cur < fuel)%nat -> (length cur <= g)%nat ->
    exists rest,
      root_loop H fuel v below cur above (length cur) =
        Ok (below ++ mk_plevels g cur ++ [] :: rest, root_of h w g cur).
  Proof.
    induction fuel as [|f IH]; intros g below cur above Hab Hw Hne Hf Hg; [lia|].
    destruct cur as [|a [|b r]]; [contradiction| |].
    - (* single node: the root *)
      destruct g as [|g]; [cbn in Hg; lia|].
      exists above. cbn [root_loop length Nat.leb].
      rewrite mk_finalize_ok by (inversion Hw; assumption).
      reflexivity.
    - remember (a :: b :: r) as cur eqn:Ec.
      assert (Hl2 : (2 <= length cur)%nat) by (subst cur; cbn; lia).
      destruct g as [|g]; [lia|].
      assert (Hpl : mk_plevels (S g) cur = mk_padded cur :: mk_plevels g (pairup h w cur))
        by (subst cur; reflexivity).
      assert (Hro : root_of h w (S g) cur = root_of h w g (pairup h w cur))
        by (subst cur; reflexivity).
      rewrite Hpl, Hro. clear Hpl Hro.
      cbn [root_loop].
      replace (length cur <=? 1)%nat with false by (symmetry; apply Nat.leb_gt; lia).
      assert (Hab' : (match above with [] => ([], []) | n :: a0 => (n, a0) end)
                     = ([], tl above) /\ mk_empties (tl above)).
      { destruct above as [|n a0]; [split; [reflexivity|constructor]|].
        inversion Hab; subst. split; [reflexivity|assumption]. }
      destruct Hab' as [Hab1 Hab2]. rewrite Hab1. clear Hab1.
      change (if Nat.odd (length cur) then cur ++ [zero_node v] else cur) with (mk_padded cur).
      replace ((if Nat.odd (length cur) then S (length cur) else length cur) / 2)%nat
        with (length (pairup h w cur)).
      2:{ rewrite mk_pairup_length, mk_odd_mod2.
          destruct (length cur mod 2 =? 1)%nat eqn:E; lia. }
      assert (Hph : pair_hashes H v (length (pairup h w cur)) 0 (mk_padded cur)
                    = Ok (pairup h w (mk_padded cur))).
      { apply (mk_pair_hashes (length (pairup h w cur)) 0 [] (mk_padded cur)); [reflexivity|].
        rewrite mk_padded_length, mk_pairup_length. reflexivity. }
      rewrite Hph. clear Hph.
      rewrite mk_pairup_padded. cbn [obind app].
      destruct (IH g (below ++ [mk_padded cur]) (pairup h w cur) (tl above)) as [rest Hrest].
      + exact Hab2.
      + apply mk_pairup_wide.
      + intro Hnil. apply (f_equal (@length bytes)) in Hnil.
        rewrite mk_pairup_length in Hnil. cbn [length] in Hnil. lia.
      + rewrite mk_pairup_length. lia.
      + rewrite mk_pairup_length. lia.
      + exists rest. rewrite Hrest. rewrite <- app_assoc. reflexivity.
  Qed.

  (* get_paths *)
  Lemma mk_padded_sibling : forall l i, (i < length l)%nat ->
    nth_error (mk_padded l) (if Nat.even i then S i else pred i) = Some (sibling w l i).
  Proof.
    intros l i Hi. unfold sibling.
    assert (Hs : (Nat.even i = true /\ (i mod 2 = 0)%nat) \/ (Nat.even i = false /\ (i mod 2 = 1)%nat)).
    { rewrite mk_even_mod2. destruct (i mod 2 =? 0)%nat eqn:E; [left|right]; split; try reflexivity; lia. }
    set (s := if Nat.even i then S i else pred i).
    assert (Hsv : (s = if Nat.even i then S i else pred i)%nat) by reflexivity.
    destruct (Nat.lt_ge_cases s (length l)) as [Hlt|Hge].
    - replace (nth_error (mk_padded l) s) with (nth_error l s).
      + apply nth_error_nth'. exact Hlt.
      + unfold mk_padded. destruct (Nat.odd (length l)); [|reflexivity].
        symmetry. apply nth_error_app1. exact Hlt.
    - destruct Hs as [[He Hm]|[He Hm]]; rewrite He in Hsv; [|lia].
      assert (Hsl : s = length l) by lia.
      rewrite (nth_overflow l (s_zero w) Hge).
      unfold mk_padded. rewrite mk_odd_mod2.
      replace (length l mod 2 =? 1)%nat with true by (symmetry; apply Nat.eqb_eq; lia).
      rewrite Hsl. apply mk_nth_error_mid0.
  Qed.

  Lemma mk_paths_loop_cons : forall l rest i depth, l <> [] ->
    paths_loop (l :: rest) i depth =
      match nth_error l (if Nat.even i then S i else pred i) with
      | None => Panic site_path_index
      | Some s => obind (paths_loop rest (i / 2) (S depth)) (fun p => Ok (s ++ p))
      end.
  Proof. intros l rest i depth Hne. destruct l; [contradiction|reflexivity]. Qed.

  Lemma mk_paths_loop : forall g L i depth rest,
    (i < length L)%nat -> (depth + length (mk_plevels g L) <= 32)%nat ->
    paths_loop (mk_plevels g L ++ [] :: rest) i depth = Ok (concat (path_of h w g L i)).
  Proof.
    assert (Hstop : forall i depth rest, (depth <= 32)%nat -> paths_loop ([] :: rest) i depth = Ok []).
    { intros i depth rest Hd. cbn [paths_loop].
      replace (depth <=? 32)%nat with true by (symmetry; apply Nat.leb_le; exact Hd). reflexivity. }
    induction g as [|g IH]; intros L i depth rest Hi Hd.
    - cbn [mk_plevels app path_of concat]. apply Hstop. cbn [mk_plevels length] in Hd. lia.
    - destruct L as [|a [|b r]].
      + cbn in Hi. lia.
      + cbn [mk_plevels app path_of concat]. apply Hstop. cbn [mk_plevels length] in Hd. lia.
      + remember (a :: b :: r) as L eqn:EL.
        assert (Hl2 : (2 <= length L)%nat) by (subst L; cbn; lia).
        assert (Hpl : mk_plevels (S g) L = mk_padded L :: mk_plevels g (pairup h w L))
          by (subst L; reflexivity).
        assert (Hpa : path_of h w (S g) L i = sibling w L i :: path_of h w g (pairup h w L) (i / 2))
          by (subst L; reflexivity).
        rewrite Hpl in *. rewrite Hpa. clear Hpl Hpa.
        cbn [app]. rewrite mk_paths_loop_cons.
        2:{ intro Hnil. apply (f_equal (@length bytes)) in Hnil.
            rewrite mk_padded_length in Hnil. cbn [length] in Hnil. lia. }
        rewrite mk_padded_sibling by exact Hi.
        rewrite IH.
        * reflexivity.
        * rewrite mk_pairup_length. lia.
        * cbn [length] in Hd. lia.
  Qed.

  Lemma mk_plevels_depth : forall g L k, (length L <= 2 ^ k)%nat -> (length (mk_plevels g L) <= k)%nat.
  Proof.
    induction g as [|g IH]; intros L k Hk; [cbn; lia|].
    destruct L as [|a [|b r]]; [cbn; lia|cbn; lia|].
    remember (a :: b :: r) as L eqn:EL.
    assert (Hl2 : (2 <= length L)%nat) by (subst L; cbn; lia).
    assert (Hpl : mk_plevels (S g) L = mk_padded L :: mk_plevels g (pairup h w L))
      by (subst L; reflexivity).
    rewrite Hpl. clear Hpl. cbn [length].
    destruct k as [|k]; [cbn in Hk; lia|].
    rewrite Nat.pow_succ_r' in Hk.
    specialize (IH (pairup h w L) k). rewrite mk_pairup_length in IH.
    generalize dependent (2 ^ k)%nat. intros P Hk IH. lia.
  Qed.

  Lemma mk_all_paths : forall g L rest t n i0,
    levels t = mk_plevels g L ++ [] :: rest ->
    (length (mk_plevels g L) <= 32)%nat -> (i0 + n <= length L)%nat ->
    all_paths t n i0 = Ok (map (fun i => concat (path_of h w g L i)) (seq i0 n)).
  Proof.
    intros g L rest t n. induction n as [|n IH]; intros i0 Ht Hd Hn; [reflexivity|].
    cbn [all_paths seq map]. unfold get_paths. rewrite Ht.
    rewrite mk_paths_loop by lia. cbn [obind].
    rewrite IH by (assumption || lia). reflexivity.
  Qed.
End Model.

Lemma mk_two32 : N.of_nat (2 ^ 32) = 4294967296%N.
Proof. rewrite Nat2N.inj_pow. reflexivity. Qed.

Lemma model_is_spec : goal_model_is_spec.
Proof.
  unfold goal_model_is_spec. intros H v t ls HL Hv Hne [Hls Hlen].
  destruct (mk_reset_shape t Hne) as [above [Hreset Hab]]. rewrite Hv in Hreset.
  unfold batch. rewrite Hreset, mk_push_all. cbn [obind app].
  set (L0 := map (s_leaf (hashv H v)) ls).
  assert (HL0 : length L0 = length ls) by apply map_length.
  assert (HL0ne : L0 <> []).
  { destruct ls; [contradiction|discriminate]. }
  assert (Hwide : mk_wide v L0).
  { unfold mk_wide, L0. apply Forall_forall. intros x Hx.
    apply in_map_iff in Hx. destruct Hx as [y [<- _]]. apply mk_hashv_len, HL. }
  destruct (mk_root_loop H v HL (S (length L0)) (length ls) [] L0 above Hab Hwide HL0ne)
    as [rest Hrest]; [lia|lia|].
  assert (Hcr : compute_root H (mktree (L0 :: above) v) =
                Ok (mktree (mk_plevels H v (length ls) L0 ++ [] :: rest) v, spec_root H v ls)).
  { unfold compute_root. cbn [levels tver].
    destruct L0 as [|x xs] eqn:EL0; [contradiction|]. rewrite <- EL0 in *.
    rewrite Hrest. reflexivity. }
  rewrite Hcr. cbn [obind].
  assert (Hdepth : (length (mk_plevels H v (length ls) L0) <= 32)%nat).
  { apply mk_plevels_depth. pose proof mk_two32 as H32.
    generalize dependent (2 ^ 32)%nat. intros P H32. lia. }
  rewrite (mk_all_paths H v (length ls) L0 rest) by (reflexivity || assumption || lia).
  eexists. split; [reflexivity|]. split; [reflexivity|].
  cbn [levels]. intro Hnil. apply app_eq_nil in Hnil. destruct Hnil as [_ Hnil]. discriminate Hnil.
Qed.


Lemma reuse : goal_reuse.
Proof.
  unfold goal_reuse. intros H v t bs HL Hv Hne Hbs. revert t Hv Hne.
  induction Hbs as [|ls bs Hok Hbs IH]; intros t Hv Hne; [reflexivity|].
  destruct (model_is_spec H v t ls HL Hv Hne Hok) as [t' [Hb [Hv' Hne']]].
  cbn [batches map]. rewrite Hb. cbn [obind].
  rewrite (IH t' Hv' Hne'). reflexivity.
Qed.

Print Assumptions root_from_paths_spec.
Print Assumptions complete.
Print Assumptions model_is_spec.
Print Assumptions reuse.
