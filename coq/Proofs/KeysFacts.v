(* KeysFacts.v — C10 / C11: identity, certificates, midpoint arithmetic *)
Require Import RV.Model.Bytes RV.Gen.Tables RV.Model.Tag RV.Model.Message RV.Model.Keys.
Require Import RV.Spec.RefCodec RV.Spec.RefVerify.
From Coq Require Import ZArith Lia ZifyN ZifyBool ZifyNat.
Ltac Zify.zify_post_hook ::= Z.div_mod_to_equations.
Local Open Scope N_scope.

(* ---- C11: midpoint and radius ---- *)
Lemma classic_midp_value : forall secs nanos,
  secs < 17592186044416 -> nanos < 1000000000 ->
  classic_midp (secs, nanos) = (secs * 1000000000 + nanos) / 1000.
Proof.
  intros secs nanos Hs Hn. unfold classic_midp, two64.
  rewrite (N.mod_small (secs * 1000000)) by lia.
  rewrite N.mod_small by lia. lia.
Qed.

Lemma classic_midp_brackets : forall secs nanos,
  secs < 17592186044416 -> nanos < 1000000000 ->
  1000 * classic_midp (secs, nanos) <= secs * 1000000000 + nanos
  /\ secs * 1000000000 + nanos < 1000 * (classic_midp (secs, nanos) + 1).
Proof. intros secs nanos Hs Hn. rewrite classic_midp_value by assumption. lia. Qed.

Lemma rfc_midp_brackets : forall secs nanos,
  nanos < 1000000000 ->
  1000000000 * rfc_midp (secs, nanos) <= secs * 1000000000 + nanos
  /\ secs * 1000000000 + nanos < 1000000000 * (rfc_midp (secs, nanos) + 1).
Proof. intros secs nanos Hn. unfold rfc_midp. cbn [fst]. lia. Qed.

Lemma radi_values : radi_of Google = 5000000 /\ radi_of RfcDraft13 = 5.
Proof. split; reflexivity. Qed.

(* five seconds in the protocol's unit: radius * unit = 5 * 10^9 ns *)
Lemma radi_is_five_seconds :
  radi_of Google * 1000 = 5 * 1000000000 /\ radi_of RfcDraft13 * 1000000000 = 5 * 1000000000.
Proof. split; reflexivity. Qed.

Lemma midp_lt_two64 : forall v now, fst now < two64 -> midp_of v now < two64.
Proof.
  intros v [secs nanos] H. destruct v; cbn [midp_of fst] in *.
  - unfold classic_midp. apply N.mod_lt. unfold two64. lia.
  - exact H.
Qed.

(* ---- C10: identity and context separation ---- *)
Lemma srv_value_spec : forall (H : bytes -> bytes) (ed_pk : bytes -> bytes) seed,
  ltk_srv_value H ed_pk seed = firstn 32 (H (xff :: ed_pk seed))
  /\ ltk_public_key ed_pk seed = ed_pk seed.
Proof. intros. split; reflexivity. Qed.

Lemma dele_context_separation : forall d, dele_prefix Google ++ d <> dele_prefix RfcDraft13 ++ d.
Proof.
  intros d Heq.
  assert (Hn : nth_error (dele_prefix Google ++ d) 33 = nth_error (dele_prefix RfcDraft13 ++ d) 33)
    by (rewrite Heq; reflexivity).
  rewrite nth_error_app1 in Hn by (vm_compute; lia).
  rewrite nth_error_app1 in Hn by (vm_compute; lia).
  vm_compute in Hn. discriminate Hn.
Qed.

Lemma contexts_match_spec :
  (forall v, dele_prefix v = spec_dele_ctx v) /\ (forall v, srep_prefix v = ctx_srep).
Proof. split; intros v; destruct v; reflexivity. Qed.
