(* CodeTag.v — src/tag.rs as translated on this run (data, wire_value, as_string, from_wire, is_nested)
   against the table REFLECTED from the compiled code (Gen/Tables.v) and Model/Tag.v: the source text of the
   tag table and the behaviour of the compiled one are the same table, and from_wire is the inverse of
   wire_value on it and InvalidTag on EVERY other byte string (no sweep needed). *)
Require Import RV.Model.Bytes RV.Gen.Tables RV.Model.Tag RV.Model.Message RV.Model.GenSupport RV.Gen.Code.
Require Import RV.Proofs.BytesFacts.
From Coq Require Import NArith List Bool.
Import ListNotations.

Lemma byte_eqb_sym : forall a b, byte_eqb a b = byte_eqb b a.
Proof. intros a b. unfold byte_eqb. apply N.eqb_sym. Qed.

Lemma bytes_eqb_sym : forall a b, bytes_eqb a b = bytes_eqb b a.
Proof.
  induction a as [|x a IH]; intros [|y b]; cbn [bytes_eqb]; try reflexivity.
  rewrite byte_eqb_sym, IH. reflexivity.
Qed.

Theorem gen_tag_wire_value_model : forall t, gen_tag_wire_value t = Ok (tag_wire t).
Proof. intros []; reflexivity. Qed.

Theorem gen_tag_as_string_model : forall t, gen_tag_as_string t = Ok (tag_display t).
Proof. intros []; reflexivity. Qed.

Theorem gen_tag_is_nested_model : forall t, gen_tag_is_nested t = Ok (tag_nested t).
Proof. intros []; reflexivity. Qed.

(* for EVERY byte string *)
Theorem gen_tag_from_wire_model : forall bs,
  gen_tag_from_wire bs = match tag_of_wire bs with Some t => Ok t | None => Err InvalidTag end.
Proof.
  intros bs. unfold gen_tag_from_wire, tag_of_wire. cbn [find all_tags tag_wire].
  rewrite !(bytes_eqb_sym bs).
  repeat match goal with
         | |- context [if bytes_eqb ?l bs then _ else _] => destruct (bytes_eqb l bs); [reflexivity|]
         end.
  reflexivity.
Qed.

(* hence the round trip and the rejection, as theorems about the translated code *)
Corollary gen_tag_roundtrip : forall t, obind (gen_tag_wire_value t) gen_tag_from_wire = Ok t.
Proof. intros []; reflexivity. Qed.

Corollary gen_tag_from_wire_only_table : forall bs t,
  gen_tag_from_wire bs = Ok t -> bs = tag_wire t.
Proof.
  intros bs t H. rewrite gen_tag_from_wire_model in H. unfold tag_of_wire in H.
  destruct (find (fun t0 => bytes_eqb (tag_wire t0) bs) all_tags) as [t0|] eqn:E; [|discriminate H].
  injection H as <-. apply find_some in E. destruct E as [_ E]. apply bytes_eqb_eq in E. symmetry. exact E.
Qed.

(* ------------------------------------------------------------------ src/version.rs *)
Theorem gen_version_model : forall v,
  gen_version_wire_bytes v = Ok (ver_wire v)
  /\ gen_version_dele_prefix v = Ok (dele_prefix v)
  /\ gen_version_sign_prefix v = Ok (srep_prefix v).
Proof. intros []; repeat split; reflexivity. Qed.

Theorem gen_supported_versions_wire_model : gen_supported_versions_wire = Ok supported_versions_wire.
Proof. reflexivity. Qed.

(* OnlineKey::new: the fresh signer's seed and, as the VERS value of every draft SREP it will sign, the list of
   supported versions (what make_srep's table entry `vers_wire_bytes => supported_versions_wire` assumed) *)
Theorem gen_online_key_new_model : forall online_seed,
  gen_online_key_new online_seed = Ok (online_seed, supported_versions_wire).
Proof. reflexivity. Qed.

(* the name a version is printed under (Display, the client's verbose output): total, a constant of the
   version alone, and the two supported versions print differently *)
Theorem gen_version_as_string_names : forall v w,
  (exists name, gen_version_as_string v = Ok name /\ name <> [])
  /\ (gen_version_as_string v = gen_version_as_string w -> v = w).
Proof.
  intros v w. split.
  - destruct v; eexists; (split; [reflexivity | discriminate]).
  - destruct v, w; intro H; try reflexivity; vm_compute in H; discriminate H.
Qed.

Theorem gen_tag_table_model :
  forall t, gen_tag_wire_value t = Ok (tag_wire t) /\ gen_tag_as_string t = Ok (tag_display t)
            /\ gen_tag_is_nested t = Ok (tag_nested t).
Proof. intros []; repeat split; reflexivity. Qed.
