(* ServerCorollaries.v — consequences of the server refinement theorems in the vocabulary of the
   properties: one reply per accepted request, to its sender; rejected datagrams cause none;
   every reply verifies; no amplification. *)
Require Import RV.Model.Bytes RV.Gen.Tables RV.Model.Tag RV.Model.Message RV.Model.Merkle
        RV.Model.Request RV.Model.Keys RV.Model.Server
        RV.Spec.RefCodec RV.Spec.RefMerkle RV.Spec.MerkleGoals RV.Spec.RefVerify RV.Spec.ServerGoals.
Require Import RV.Proofs.RequestFacts RV.Proofs.ServerFacts RV.Proofs.ReplyFacts.
From Coq Require Import Lia ZArith ZifyNat ZifyN.
Local Open Scope N_scope.

Section Cor.
  Variable H : bytes -> bytes.
  Variable ed_pk : bytes -> bytes.
  Variable ed_sign : bytes -> bytes -> bytes.
  Variable ed_verify : bytes -> bytes -> bytes -> bool.

  Lemma spec_replies_length : forall v lt ok now reqs,
    length (spec_replies H ed_pk ed_sign v lt ok now reqs) = length reqs.
  Proof. intros. unfold spec_replies. rewrite map_length, seq_length. reflexivity. Qed.

  Lemma spec_replies_in : forall v lt ok now reqs e,
    In e (spec_replies H ed_pk ed_sign v lt ok now reqs) ->
    exists i, (i < length reqs)%nat
              /\ e = mkem (req_src (nth i reqs req0)) (reply_bytes H ed_pk ed_sign v lt ok now reqs i).
  Proof.
    intros v lt ok now reqs e Hin. unfold spec_replies in Hin.
    apply in_map_iff in Hin. destruct Hin as [i [He Hi]].
    apply in_seq in Hi. exists i. split; [lia|]. symmetry. exact He.
  Qed.

  (* every queued request is a datagram of this batch that the protocol spec accepts *)
  Lemma accepted_in : forall srv v ds r,
    In r (accepted srv v ds) ->
    wellformed srv (req_dgram r) = Some (req_nonce r, v) /\ In (req_src r, req_dgram r) ds.
  Proof.
    intros srv v ds r Hin. unfold accepted in Hin. apply in_flat_map in Hin.
    destruct Hin as [[a d] [Hd Hr]]. cbn [fst snd] in Hr.
    destruct (wellformed srv d) as [[n v']|] eqn:Hw; [|contradiction].
    destruct (version_beq v v') eqn:Hv; [|contradiction].
    destruct Hr as [<-|[]]. unfold req_dgram, req_nonce, req_src. cbn [fst snd].
    apply internal_version_dec_bl in Hv. subst v'. split; [exact Hw|exact Hd].
  Qed.

  (* a datagram the spec rejects contributes nothing *)
  Lemma accepted_skip_invalid : forall srv v ds1 a d ds2,
    wellformed srv d = None ->
    accepted srv v (ds1 ++ (a, d) :: ds2) = accepted srv v (ds1 ++ ds2).
  Proof.
    intros srv v ds1 a d ds2 Hw. unfold accepted. rewrite !flat_map_app. cbn [flat_map fst snd].
    rewrite Hw. reflexivity.
  Qed.

  Lemma accepted_length_le : forall srv v ds, (length (accepted srv v ds) <= length ds)%nat.
  Proof.
    intros srv v ds. induction ds as [|[a d] ds IH]; cbn [accepted flat_map length]; [lia|].
    fold (accepted srv v ds). cbn [fst snd].
    destruct (wellformed srv d) as [[n v']|]; [destruct (version_beq v v')|]; cbn [app length];
      [apply le_n_S, IH | apply le_S, IH | apply le_S, IH].
  Qed.

  (* whatever a batch emits goes to the source of an accepted request of that batch, is the reply
     specified for it, verifies under the independent verifier, and is no longer than the request *)
  Lemma batch_emission : forall srv lt oi oc now ds e,
    HashLen H -> PkLen ed_pk -> SigLen ed_sign -> SigCorrect ed_pk ed_sign ed_verify ->
    (length ds <= 64)%nat -> fst now < two64 ->
    In e (spec_batch_sent H ed_pk ed_sign srv lt oi oc now ds) ->
    exists v r, In r (accepted srv v ds)
      /\ em_dest e = req_src r
      /\ wellformed srv (req_dgram r) = Some (req_nonce r, v)
      /\ verify_response H ed_verify v (ed_pk lt) (req_dgram r) (em_bytes e) = true
      /\ (length (em_bytes e) <= length (req_dgram r))%nat.
  Proof.
    intros srv lt oi oc now ds e HH HP HS HC Hn Hnow Hin.
    unfold spec_batch_sent in Hin. apply in_app_or in Hin.
    assert (Hgen : forall v ok, In e (spec_replies H ed_pk ed_sign v lt ok now (accepted srv v ds)) ->
      exists r, In r (accepted srv v ds) /\ em_dest e = req_src r
        /\ wellformed srv (req_dgram r) = Some (req_nonce r, v)
        /\ verify_response H ed_verify v (ed_pk lt) (req_dgram r) (em_bytes e) = true
        /\ (length (em_bytes e) <= length (req_dgram r))%nat).
    { intros v ok Hv. apply spec_replies_in in Hv. destruct Hv as [i [Hi ->]].
      pose proof (accepted_length_le srv v ds) as Hle.
      exists (nth i (accepted srv v ds) req0). cbn [em_dest em_bytes].
      assert (Hr : In (nth i (accepted srv v ds) req0) (accepted srv v ds)) by (apply nth_In; exact Hi).
      split; [exact Hr|]. split; [reflexivity|]. split; [apply (accepted_in _ _ _ _ Hr)|].
      split.
      - apply (reply_verifies H ed_pk ed_sign ed_verify HH HP HS HC v srv lt ok now ds i Hi); [lia|exact Hnow].
      - pose proof (reply_size H ed_pk ed_sign HH HP HS v srv lt ok now ds i Hi) as Hsz.
        cbv zeta in Hsz. assert (Hl : (length (accepted srv v ds) <= 64)%nat) by lia.
        specialize (Hsz Hl). lia. }
    destruct Hin as [Hi|Hc].
    - exists RfcDraft13. destruct (Hgen RfcDraft13 oi Hi) as [r Hr]. exists r. exact Hr.
    - exists Google. destruct (Hgen Google oc Hc) as [r Hr]. exists r. exact Hr.
  Qed.

  (* exactly one emission per accepted request, IETF first then classic, each in arrival order *)
  Lemma batch_count : forall srv lt oi oc now ds,
    length (spec_batch_sent H ed_pk ed_sign srv lt oi oc now ds)
    = (length (accepted srv RfcDraft13 ds) + length (accepted srv Google ds))%nat.
  Proof. intros. unfold spec_batch_sent. rewrite app_length, !spec_replies_length. reflexivity. Qed.

  Lemma map_nth_seq : forall (A B : Type) (f : A -> B) (l : list A) (d : A),
    map (fun i => f (nth i l d)) (seq 0 (length l)) = map f l.
  Proof.
    intros A B f l d. induction l as [|x l IH] using rev_ind; [reflexivity|].
    rewrite app_length, Nat.add_1_r, seq_S, !map_app, Nat.add_0_l. cbn [map].
    rewrite app_nth2, Nat.sub_diag by lia. cbn [nth]. f_equal.
    rewrite <- IH. apply map_ext_in. intros i Hi. apply in_seq in Hi.
    rewrite app_nth1 by lia. reflexivity.
  Qed.

  Lemma batch_dests : forall srv lt oi oc now ds,
    map em_dest (spec_batch_sent H ed_pk ed_sign srv lt oi oc now ds)
    = map req_src (accepted srv RfcDraft13 ds) ++ map req_src (accepted srv Google ds).
  Proof.
    intros. unfold spec_batch_sent. rewrite map_app. unfold spec_replies. rewrite !map_map.
    cbn [em_dest]. rewrite !map_nth_seq. reflexivity.
  Qed.
End Cor.
