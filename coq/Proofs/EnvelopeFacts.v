(* EnvelopeFacts.v — proofs of the C14 (envelope encryption) goals of Spec/EnvelopeGoals.v *)
Require Import RV.Model.Bytes RV.Model.Envelope RV.Spec.EnvelopeGoals RV.Proofs.BytesFacts.
From Coq Require Import ZArith Lia ZifyN ZifyBool ZifyNat.
Ltac Zify.zify_post_hook ::= Z.div_mod_to_equations.
Local Open Scope N_scope.

(* ---------- 16-bit little-endian words ---------- *)

Lemma env_length_u16le : forall n, length (u16le n) = 2%nat.
Proof. reflexivity. Qed.

Lemma env_rd16_lt : forall l, rd16 l < 65536.
Proof.
  intro l. destruct l as [|a [|b r]]; cbn [rd16]; try lia.
  pose proof (b2n_lt a). pose proof (b2n_lt b). lia.
Qed.

Lemma env_rd16_u16le_app : forall n rest, n < 65536 -> rd16 (u16le n ++ rest) = n.
Proof.
  intros n rest H. unfold u16le. cbn [app rd16]. rewrite !b2n_n2b. lia.
Qed.

Lemma env_u16le_rd16 : forall a b rest, u16le (rd16 (a :: b :: rest)) = [a; b].
Proof.
  intros a b rest. unfold u16le. cbn [rd16].
  pose proof (b2n_lt a). pose proof (b2n_lt b).
  f_equal; [|f_equal]; apply n2b_eq; lia.
Qed.

(* a blob of at least four bytes is its two 16-bit fields followed by the rest *)
Lemma env_blob_split : forall blob, (4 <= length blob)%nat ->
  blob = u16le (rd16 blob) ++ u16le (rd16 (skipn 2 blob)) ++ skipn 4 blob.
Proof.
  intros blob H. destruct blob as [|a [|b [|c [|d r]]]]; cbn [length] in H; try lia.
  cbn [skipn]. rewrite !env_u16le_rd16. reflexivity.
Qed.

(* ---------- list slicing ---------- *)

Lemma env_skipn_app_exact : forall {A} (a b : list A) n, length a = n -> skipn n (a ++ b) = b.
Proof.
  intros A a b n H. subst n. rewrite skipn_app, skipn_all, Nat.sub_diag. reflexivity.
Qed.

Lemma env_firstn_app_exact : forall {A} (a b : list A) n, length a = n -> firstn n (a ++ b) = a.
Proof.
  intros A a b n H. subst n. rewrite firstn_app, firstn_all, Nat.sub_diag.
  cbn [firstn]. apply app_nil_r.
Qed.

(* ---------- the parse ---------- *)

(* an accepted blob is exactly: two validated length fields, wrapped key, 12-byte nonce, rest *)
Lemma env_parse_ok : forall b w n c, parse_blob b = Ok (w, n, c) ->
  b = u16le (N.of_nat (length w)) ++ u16le 12 ++ w ++ n ++ c
  /\ length n = 12%nat /\ N.of_nat (length w) < 65536.
Proof.
  intros b w n c H. unfold parse_blob in H. cbv zeta in H.
  unfold MIN_PAYLOAD_SIZE, NONCE_LEN_BYTES in H.
  destruct (length b <? 64)%nat eqn:E1; [discriminate|].
  apply Nat.ltb_ge in E1.
  destruct (negb (N.to_nat (rd16 (skipn 2 b)) =? 12)%nat
            || (length b <? N.to_nat (rd16 b))%nat) eqn:E2; [discriminate|].
  apply orb_false_iff in E2. destruct E2 as [E2 E2'].
  apply negb_false_iff in E2. apply Nat.eqb_eq in E2.
  destruct (length (skipn 4 b) <? N.to_nat (rd16 b))%nat eqn:E3; [discriminate|].
  apply Nat.ltb_ge in E3.
  destruct (length (skipn (N.to_nat (rd16 b)) (skipn 4 b)) <? 12)%nat eqn:E4; [discriminate|].
  apply Nat.ltb_ge in E4.
  assert (Hw : firstn (N.to_nat (rd16 b)) (skipn 4 b) = w) by congruence.
  assert (Hn : firstn 12 (skipn (N.to_nat (rd16 b)) (skipn 4 b)) = n) by congruence.
  assert (Hc : skipn 12 (skipn (N.to_nat (rd16 b)) (skipn 4 b)) = c) by congruence.
  clear H.
  assert (Lw : length w = N.to_nat (rd16 b)).
  { rewrite <- Hw. apply firstn_length_le. exact E3. }
  assert (Ln : length n = 12%nat).
  { rewrite <- Hn. apply firstn_length_le. exact E4. }
  assert (Rw : N.of_nat (length w) = rd16 b).
  { rewrite Lw. apply N2Nat.id. }
  assert (Rn : rd16 (skipn 2 b) = 12) by lia.
  split; [|split].
  - rewrite Rw. rewrite <- Rn.
    rewrite <- Hw, <- Hn, <- Hc.
    rewrite (firstn_skipn 12), (firstn_skipn (N.to_nat (rd16 b))).
    apply env_blob_split. lia.
  - exact Ln.
  - rewrite Rw. apply env_rd16_lt.
Qed.

(* conversely, a well-formed layout of total length >= 64 parses to its components *)
Lemma env_parse_build : forall w n c,
  N.of_nat (length w) < 65536 -> length n = 12%nat ->
  (64 <= 4 + length w + 12 + length c)%nat ->
  parse_blob (u16le (N.of_nat (length w)) ++ u16le 12 ++ w ++ n ++ c) = Ok (w, n, c).
Proof.
  intros w n c Hw Hn Hlen.
  set (b := u16le (N.of_nat (length w)) ++ u16le 12 ++ w ++ n ++ c).
  assert (Lb : length b = (4 + length w + 12 + length c)%nat).
  { subst b. rewrite !app_length, !env_length_u16le, Hn. lia. }
  assert (R1 : rd16 b = N.of_nat (length w)).
  { subst b. apply env_rd16_u16le_app. exact Hw. }
  assert (S2 : skipn 2 b = u16le 12 ++ w ++ n ++ c) by reflexivity.
  assert (R2 : rd16 (skipn 2 b) = 12).
  { rewrite S2. apply env_rd16_u16le_app. lia. }
  assert (S4 : skipn 4 b = w ++ n ++ c) by reflexivity.
  unfold parse_blob. cbv zeta. unfold MIN_PAYLOAD_SIZE, NONCE_LEN_BYTES.
  rewrite R1, R2, S4, Nat2N.id.
  assert (T1 : (length b <? 64)%nat = false) by (apply Nat.ltb_ge; lia).
  rewrite T1.
  assert (T2 : (N.to_nat 12 =? 12)%nat = true) by reflexivity.
  rewrite T2. cbn [negb orb].
  assert (T3 : (length b <? length w)%nat = false) by (apply Nat.ltb_ge; lia).
  rewrite T3.
  assert (T4 : (length (w ++ n ++ c) <? length w)%nat = false).
  { apply Nat.ltb_ge. rewrite app_length. lia. }
  rewrite T4.
  rewrite (env_skipn_app_exact w (n ++ c) (length w) eq_refl).
  rewrite (env_firstn_app_exact w (n ++ c) (length w) eq_refl).
  assert (T5 : (length (n ++ c) <? 12)%nat = false).
  { apply Nat.ltb_ge. rewrite app_length. lia. }
  rewrite T5.
  rewrite (env_skipn_app_exact n c 12 Hn).
  rewrite (env_firstn_app_exact n c 12 Hn).
  reflexivity.
Qed.

Lemma env_parse_no_panic : forall b, is_panic (parse_blob b) = false.
Proof.
  intro b. unfold parse_blob. cbv zeta.
  destruct (length b <? MIN_PAYLOAD_SIZE)%nat; [reflexivity|].
  destruct (negb (N.to_nat (rd16 (skipn 2 b)) =? NONCE_LEN_BYTES)%nat
            || (length b <? N.to_nat (rd16 b))%nat); [reflexivity|].
  destruct (length (skipn 4 b) <? N.to_nat (rd16 b))%nat; [reflexivity|].
  destruct (length (skipn (N.to_nat (rd16 b)) (skipn 4 b)) <? NONCE_LEN_BYTES)%nat; reflexivity.
Qed.

(* ---------- goals ---------- *)

Lemma env_flow : forall seal wrap, goal_flow seal wrap.
Proof.
  intros seal wrap dek nonce p blob H. unfold encrypt_seed in H. cbv zeta in H.
  destruct (wrap dek) as [w|e|s] eqn:E; cbn [obind] in H; try discriminate.
  exists w. split; [reflexivity|]. injection H as H. symmetry. exact H.
Qed.

Lemma env_parse_injective : goal_parse_injective.
Proof.
  intros b1 b2 [[w n] c] H1 H2.
  apply env_parse_ok in H1. apply env_parse_ok in H2.
  destruct H1 as [H1 _]. destruct H2 as [H2 _]. rewrite H1, H2. reflexivity.
Qed.

Lemma env_authenticated : forall open unwrap, goal_authenticated open unwrap.
Proof.
  intros open unwrap blob p H. unfold decrypt_seed in H.
  destruct (parse_blob blob) as [[[w n] c]|e|s] eqn:EP; cbn [obind] in H; try discriminate.
  destruct (unwrap w) as [k|e|s] eqn:EU; cbn [obind] in H; try discriminate.
  unfold DEK_LEN_BYTES in H.
  destruct (length k =? 32)%nat eqn:EK; cbn [negb] in H; [|discriminate].
  apply Nat.eqb_eq in EK.
  destruct (open k n AD c) as [q|] eqn:EO; [|discriminate].
  injection H as H. subst q.
  apply env_parse_ok in EP. destruct EP as [Hb [Hn Hw]].
  exists w, n, c, k. repeat split; assumption.
Qed.

Lemma env_roundtrip : forall seal open wrap unwrap, goal_roundtrip seal open wrap unwrap.
Proof.
  intros seal open wrap unwrap dek nonce p w Hd Hn Hp Hs Ho Hwr Hun Hw.
  unfold encrypt_seed. cbv zeta. rewrite Hwr. cbn [obind].
  eexists. split; [reflexivity|].
  rewrite (N.mod_small _ _ Hw).
  replace (N.of_nat (length nonce) mod 65536) with 12 by (rewrite Hn; reflexivity).
  unfold decrypt_seed.
  rewrite env_parse_build by (try assumption; rewrite Hs; lia).
  cbn [obind]. rewrite Hun. cbn [obind].
  unfold DEK_LEN_BYTES. rewrite Hd. cbn [Nat.eqb negb].
  rewrite Ho. reflexivity.
Qed.

(* ---------- no panic ---------- *)

(* goal_no_panic as stated is FALSE: [unwrap] has type [bytes -> outcome kms_error bytes] and may
   itself return [Panic]; decrypt_seed propagates it. Counterexample (64-byte blob, dek_len = 0,
   nonce_len = 12) and a formal refutation of the universally quantified statement. *)
Definition env_cex_blob : bytes := u16le 0 ++ u16le 12 ++ repeat_byte x00 60.
Definition env_toy_open (k n ad c : bytes) : option bytes := Some (firstn (length c - 16) c).

Lemma env_no_panic_cex :
  is_panic (decrypt_seed env_toy_open (fun _ => Panic 0%nat) env_cex_blob) = true.
Proof. vm_compute. reflexivity. Qed.

Lemma env_no_panic_false :
  ~ (forall open unwrap blob, is_panic (decrypt_seed open unwrap blob) = false).
Proof.
  intro H. specialize (H env_toy_open (fun _ => Panic 0%nat) env_cex_blob).
  rewrite env_no_panic_cex in H. discriminate.
Qed.

(* the weakened, true statement: if the provider does not panic, decrypt_seed does not *)
Lemma env_no_panic_weak : forall open unwrap,
  (forall w, is_panic (unwrap w) = false) ->
  forall blob, is_panic (decrypt_seed open unwrap blob) = false.
Proof.
  intros open unwrap HU blob. unfold decrypt_seed.
  pose proof (env_parse_no_panic blob) as HP.
  destruct (parse_blob blob) as [[[w n] c]|e|s]; cbn [obind]; [|reflexivity|exact HP].
  specialize (HU w).
  destruct (unwrap w) as [k|e|s]; cbn [obind]; [|reflexivity|exact HU].
  destruct (negb (length k =? DEK_LEN_BYTES)%nat); [reflexivity|].
  destruct (open k n AD c); reflexivity.
Qed.

Lemma env_no_panic : forall open unwrap, goal_no_panic open unwrap.
Proof. intros open unwrap. unfold goal_no_panic. apply env_no_panic_weak. Qed.
