(* ClientComplete.v — client goals C03: the shape of the requests the client builds (and that any
   server accepts them), and completeness of the client's decision procedure on every honest
   reply of Spec/ServerGoals.v. *)
Require Import RV.Model.Bytes RV.Gen.Tables RV.Model.Tag RV.Model.Message RV.Model.Merkle
        RV.Model.Request RV.Model.Keys RV.Model.Sign RV.Model.Client RV.Model.Server.
Require Import RV.Spec.RefCodec RV.Spec.RefMerkle RV.Spec.MerkleGoals RV.Spec.RefVerify
        RV.Spec.CodecGoals RV.Spec.ServerGoals RV.Spec.ClientGoals.
Require Import RV.Proofs.TagFacts RV.Proofs.BytesFacts RV.Proofs.EncFacts RV.Proofs.CodecDecode
        RV.Proofs.CodecEncode RV.Proofs.MerkleModel RV.Proofs.ServerFacts RV.Proofs.ReplyFacts
        RV.Proofs.SignFacts.
From Coq Require Import ZArith Lia ZifyN ZifyBool ZifyNat.
Ltac Zify.zify_post_hook ::= Z.div_mod_to_equations.

(* ================================================================== *)
(* Part A: request shape                                               *)
(* ================================================================== *)

Lemma cc_add_first : forall t a, add_field [] t a = Ok [(t, a)].
Proof. reflexivity. Qed.

Lemma cc_add_snoc : forall m' m t0 a0 t a, m' = m ++ [(t0, a0)] -> tag_le t t0 = false ->
  add_field m' t a = Ok (m' ++ [(t, a)]).
Proof.
  intros m' m t0 a0 t a -> Hle. unfold add_field. rewrite last_tag_snoc, Hle. reflexivity.
Qed.

Lemma cc_build2 : forall t1 t2 a b, tag_le t2 t1 = false ->
  build_unwrap [] [(t1, a); (t2, b)] = Ok [(t1, a); (t2, b)].
Proof.
  intros t1 t2 a b Hle. cbn [build_unwrap]. rewrite cc_add_first. cbn [unwrap obind app].
  rewrite (cc_add_snoc [(t1, a)] [] t1 a t2 b eq_refl Hle). reflexivity.
Qed.

Lemma cc_build3 : forall t1 t2 t3 a b c, tag_le t2 t1 = false -> tag_le t3 t2 = false ->
  build_unwrap [] [(t1, a); (t2, b); (t3, c)] = Ok [(t1, a); (t2, b); (t3, c)].
Proof.
  intros t1 t2 t3 a b c H1 H2. cbn [build_unwrap]. rewrite cc_add_first. cbn [unwrap obind app].
  rewrite (cc_add_snoc [(t1, a)] [] t1 a t2 b eq_refl H1). cbn [unwrap obind app].
  rewrite (cc_add_snoc [(t1, a); (t2, b)] [(t1, a)] t2 b t3 c eq_refl H2). reflexivity.
Qed.

Lemma cc_build4 : forall t1 t2 t3 t4 a b c d,
  tag_le t2 t1 = false -> tag_le t3 t2 = false -> tag_le t4 t3 = false ->
  build_unwrap [] [(t1, a); (t2, b); (t3, c); (t4, d)] = Ok [(t1, a); (t2, b); (t3, c); (t4, d)].
Proof.
  intros t1 t2 t3 t4 a b c d H1 H2 H3. cbn [build_unwrap]. rewrite cc_add_first. cbn [unwrap obind app].
  rewrite (cc_add_snoc [(t1, a)] [] t1 a t2 b eq_refl H1). cbn [unwrap obind app].
  rewrite (cc_add_snoc [(t1, a); (t2, b)] [(t1, a)] t2 b t3 c eq_refl H2). cbn [unwrap obind app].
  rewrite (cc_add_snoc [(t1, a); (t2, b); (t3, c)] [(t1, a); (t2, b)] t3 c t4 d eq_refl H3). reflexivity.
Qed.

Definition cc_classic_req (nonce : bytes) : msg := [(NONC, nonce); (PAD, repeat_byte x00 944)].
Definition cc_ietf_req (nonce : bytes) : msg :=
  [(VER, ver_wire RfcDraft13); (NONC, nonce); (ZZZZ, repeat_byte x00 964)].
Definition cc_ietf_req_srv (srv nonce : bytes) : msg :=
  [(VER, ver_wire RfcDraft13); (SRV, srv); (NONC, nonce); (ZZZZ, repeat_byte x00 924)].

Lemma cc_padded_classic : forall nonce : bytes, length nonce = 64 ->
  padded [(NONC, nonce)] PAD = Ok (cc_classic_req nonce).
Proof.
  intros nonce Hn. unfold padded. cbn [app].
  rewrite cc_build2 by reflexivity. cbn [obind].
  match goal with |- context [calculate_padding_length ?m] => assert (Hp : calculate_padding_length m = 944) end.
  { unfold calculate_padding_length, encoded_size. cbn [length sum_lengths]. rewrite Hn. reflexivity. }
  rewrite Hp. apply cc_build2. reflexivity.
Qed.

Lemma cc_padded_ietf : forall nonce : bytes, length nonce = 32 ->
  padded ([(VER, ver_wire RfcDraft13)] ++ [] ++ [(NONC, nonce)]) ZZZZ = Ok (cc_ietf_req nonce).
Proof.
  intros nonce Hn. unfold padded. cbn [app].
  rewrite cc_build3 by reflexivity. cbn [obind].
  match goal with |- context [calculate_padding_length ?m] => assert (Hp : calculate_padding_length m = 964) end.
  { unfold calculate_padding_length, encoded_size. cbn [length sum_lengths ver_wire]. rewrite Hn. reflexivity. }
  rewrite Hp. apply cc_build3; reflexivity.
Qed.

Lemma cc_padded_ietf_srv : forall srv nonce : bytes, length srv = 32 -> length nonce = 32 ->
  padded ([(VER, ver_wire RfcDraft13)] ++ [(SRV, srv)] ++ [(NONC, nonce)]) ZZZZ
  = Ok (cc_ietf_req_srv srv nonce).
Proof.
  intros srv nonce Hs Hn. unfold padded. cbn [app].
  rewrite cc_build4 by reflexivity. cbn [obind].
  match goal with |- context [calculate_padding_length ?m] => assert (Hp : calculate_padding_length m = 924) end.
  { unfold calculate_padding_length, encoded_size. cbn [length sum_lengths ver_wire]. rewrite Hs, Hn. reflexivity. }
  rewrite Hp. apply cc_build4; reflexivity.
Qed.

Lemma cc_classic_size : forall nonce : bytes, length nonce = 64 -> encoded_size (cc_classic_req nonce) = 1024.
Proof.
  intros nonce Hn. unfold cc_classic_req, encoded_size. cbn [length sum_lengths].
  rewrite Hn, rf_repeat_byte_length. reflexivity.
Qed.

Lemma cc_ietf_size : forall nonce : bytes, length nonce = 32 -> encoded_size (cc_ietf_req nonce) = 1024.
Proof.
  intros nonce Hn. unfold cc_ietf_req, encoded_size. cbn [length sum_lengths ver_wire].
  rewrite Hn, rf_repeat_byte_length. reflexivity.
Qed.

Lemma cc_ietf_srv_size : forall srv nonce : bytes, length srv = 32 -> length nonce = 32 ->
  encoded_size (cc_ietf_req_srv srv nonce) = 1024.
Proof.
  intros srv nonce Hs Hn. unfold cc_ietf_req_srv, encoded_size. cbn [length sum_lengths ver_wire].
  rewrite Hs, Hn, rf_repeat_byte_length. reflexivity.
Qed.

Lemma cc_classic_decode : forall nonce : bytes, length nonce = 64 ->
  ref_decode (canon (cc_classic_req nonce)) = Some (cc_classic_req nonce).
Proof.
  intros nonce Hn. apply ref_decode_canon.
  - apply rf_Built_of_asc. reflexivity.
  - unfold cc_classic_req. repeat constructor; cbn [snd]; rewrite ?Hn, ?rf_repeat_byte_length; reflexivity.
  - rewrite (cc_classic_size nonce Hn). reflexivity.
Qed.

Lemma cc_ietf_decode : forall nonce : bytes, length nonce = 32 ->
  ref_decode (canon (cc_ietf_req nonce)) = Some (cc_ietf_req nonce).
Proof.
  intros nonce Hn. apply ref_decode_canon.
  - apply rf_Built_of_asc. reflexivity.
  - unfold cc_ietf_req. repeat constructor; cbn [snd]; rewrite ?Hn, ?rf_repeat_byte_length; reflexivity.
  - rewrite (cc_ietf_size nonce Hn). reflexivity.
Qed.

Lemma cc_ietf_srv_decode : forall srv nonce : bytes, length srv = 32 -> length nonce = 32 ->
  ref_decode (canon (cc_ietf_req_srv srv nonce)) = Some (cc_ietf_req_srv srv nonce).
Proof.
  intros srv nonce Hs Hn. apply ref_decode_canon.
  - apply rf_Built_of_asc. reflexivity.
  - unfold cc_ietf_req_srv. repeat constructor; cbn [snd]; rewrite ?Hs, ?Hn, ?rf_repeat_byte_length; reflexivity.
  - rewrite (cc_ietf_srv_size srv nonce Hs Hn). reflexivity.
Qed.

(* a classic request does not start with the IETF magic *)
Lemma cc_classic_not_magic : forall nonce,
  bytes_eqb (firstn 8 (canon (cc_classic_req nonce))) magic = false.
Proof. intro nonce. reflexivity. Qed.

Lemma cc_wellformed_classic : forall srv nonce, length nonce = 64 ->
  wellformed srv (canon (cc_classic_req nonce)) = Some (nonce, Google).
Proof.
  intros srv nonce Hn. unfold wellformed.
  rewrite canon_length, (cc_classic_size nonce Hn).
  change ((1024 <? 1024) || (1500 <? 1024)) with false. cbv iota.
  rewrite cc_classic_not_magic, (cc_classic_decode nonce Hn).
  change (rget (cc_classic_req nonce) NONC) with (Some nonce). cbv beta iota.
  rewrite Hn. reflexivity.
Qed.

Lemma cc_framed_length : forall p : bytes,
  length (REQUEST_FRAMING_BYTES ++ u32le (lenN p) ++ p) = 12 + length p.
Proof. intro p. reflexivity. Qed.

Lemma cc_wellformed_ietf_gen : forall srv m ver nonce,
  encoded_size m = 1024 -> ref_decode (canon m) = Some m ->
  rget m VER = Some ver -> rget m NONC = Some nonce ->
  existsb (bytes_eqb draft13_wire) (firstn 4 (words_of ver)) = true ->
  match rget m SRV with Some s => bytes_eqb s srv | None => true end = true ->
  length nonce = 32 ->
  wellformed srv (REQUEST_FRAMING_BYTES ++ u32le (lenN (canon m)) ++ canon m) = Some (nonce, RfcDraft13).
Proof.
  intros srv m ver nonce Hsz Hdec Hver Hnonc Hex Hsrv Hn. unfold wellformed.
  rewrite cc_framed_length, canon_length, Hsz.
  change ((12 + 1024 <? 1024) || (1500 <? 12 + 1024)) with false. cbv iota.
  change (firstn 8 (REQUEST_FRAMING_BYTES ++ u32le (lenN (canon m)) ++ canon m)) with magic.
  rewrite bytes_eqb_refl.
  rewrite rf_unframe_frame.
  - rewrite Hdec, Hver, Hnonc, Hex, Hsrv, Hn. reflexivity.
  - unfold lenN. rewrite canon_length, Hsz. reflexivity.
Qed.

Section RequestShape.
  Variable H : bytes -> bytes.
  Hypothesis HL : HashLen H.

  Lemma cc_srv_len : forall pk, length (calc_srv_value H pk) = 32.
  Proof.
    intro pk. unfold calc_srv_value. rewrite firstn_length, HL. reflexivity.
  Qed.

  Lemma cc_make_classic : forall nonce pko, length nonce = 64 ->
    make_request H Google nonce pko = Ok (canon (cc_classic_req nonce)).
  Proof.
    intros nonce pko Hn. unfold make_request. rewrite (cc_padded_classic nonce Hn). cbn [obind].
    rewrite sf_encode_small; [reflexivity|].
    rewrite (cc_classic_size nonce Hn). reflexivity.
  Qed.

  Lemma cc_make_ietf : forall nonce : bytes, length nonce = 32 ->
    make_request H RfcDraft13 nonce None
    = Ok (REQUEST_FRAMING_BYTES ++ u32le (lenN (canon (cc_ietf_req nonce))) ++ canon (cc_ietf_req nonce)).
  Proof.
    intros nonce Hn. unfold make_request. rewrite (cc_padded_ietf nonce Hn). cbn [obind].
    rewrite sf_encode_framed_small; [reflexivity|].
    rewrite (cc_ietf_size nonce Hn). reflexivity.
  Qed.

  Lemma cc_make_ietf_srv : forall nonce pk, length nonce = 32 ->
    make_request H RfcDraft13 nonce (Some pk)
    = Ok (REQUEST_FRAMING_BYTES
          ++ u32le (lenN (canon (cc_ietf_req_srv (calc_srv_value H pk) nonce)))
          ++ canon (cc_ietf_req_srv (calc_srv_value H pk) nonce)).
  Proof.
    intros nonce pk Hn. unfold make_request.
    rewrite (cc_padded_ietf_srv _ nonce (cc_srv_len pk) Hn). cbn [obind].
    rewrite sf_encode_framed_small; [reflexivity|].
    rewrite (cc_ietf_srv_size _ nonce (cc_srv_len pk) Hn). reflexivity.
  Qed.

  Lemma cc_wellformed_ietf : forall srv nonce, length nonce = 32 ->
    wellformed srv (REQUEST_FRAMING_BYTES ++ u32le (lenN (canon (cc_ietf_req nonce)))
                    ++ canon (cc_ietf_req nonce)) = Some (nonce, RfcDraft13).
  Proof.
    intros srv nonce Hn.
    apply cc_wellformed_ietf_gen with (ver := ver_wire RfcDraft13).
    - apply cc_ietf_size. exact Hn.
    - apply cc_ietf_decode. exact Hn.
    - reflexivity.
    - reflexivity.
    - reflexivity.
    - reflexivity.
    - exact Hn.
  Qed.

  Lemma cc_wellformed_ietf_srv : forall srv nonce : bytes, length srv = 32 -> length nonce = 32 ->
    wellformed srv (REQUEST_FRAMING_BYTES ++ u32le (lenN (canon (cc_ietf_req_srv srv nonce)))
                    ++ canon (cc_ietf_req_srv srv nonce)) = Some (nonce, RfcDraft13).
  Proof.
    intros srv nonce Hs Hn.
    apply cc_wellformed_ietf_gen with (ver := ver_wire RfcDraft13).
    - apply cc_ietf_srv_size; assumption.
    - apply cc_ietf_srv_decode; assumption.
    - reflexivity.
    - reflexivity.
    - reflexivity.
    - change (rget (cc_ietf_req_srv srv nonce) SRV) with (Some srv). apply bytes_eqb_refl.
    - exact Hn.
  Qed.
End RequestShape.

Lemma request_shape : forall H, goal_request_shape H.
Proof.
  intros H v nonce pko Hn Hpk HL.
  destruct v; cbn [spec_nonce_len] in Hn.
  - exists (canon (cc_classic_req nonce)). split; [|split].
    + apply cc_make_classic. exact Hn.
    + rewrite canon_length. apply cc_classic_size. exact Hn.
    + apply cc_wellformed_classic. exact Hn.
  - destruct pko as [pk|].
    + eexists. split; [|split].
      * apply (cc_make_ietf_srv H HL). exact Hn.
      * rewrite cc_framed_length, canon_length, (cc_ietf_srv_size _ nonce (cc_srv_len H HL pk) Hn).
        reflexivity.
      * apply cc_wellformed_ietf_srv; [apply (cc_srv_len H HL) | exact Hn].
    + eexists. split; [|split].
      * apply (cc_make_ietf H). exact Hn.
      * rewrite cc_framed_length, canon_length, (cc_ietf_size nonce Hn). reflexivity.
      * apply cc_wellformed_ietf. exact Hn.
Qed.
Print Assumptions request_shape.

Lemma request_any_server : forall H, goal_request_any_server H.
Proof.
  intros H v nonce srv Hn HL.
  destruct v; cbn [spec_nonce_len] in Hn.
  - exists (canon (cc_classic_req nonce)). split.
    + apply cc_make_classic. exact Hn.
    + apply cc_wellformed_classic. exact Hn.
  - eexists. split.
    + apply (cc_make_ietf H). exact Hn.
    + apply cc_wellformed_ietf. exact Hn.
Qed.
Print Assumptions request_any_server.

(* ================================================================== *)
(* Part B: completeness                                                *)
(* ================================================================== *)

(* the implementation's decoder on anything the reference decoder accepts *)
Lemma cc_from_bytes_of_ref : forall bs m, (lenN bs < two32)%N -> ref_decode bs = Some m ->
  from_bytes bs = Ok m.
Proof.
  intros bs m Hlen Hdec. pose proof (decode_agrees bs Hlen) as Hag. rewrite Hdec in Hag.
  destruct (from_bytes bs) as [m'|e|s]; cbn [ok_opt] in Hag; try discriminate.
  injection Hag as ->. reflexivity.
Qed.

(* ---------- reading little-endian words ---------- *)

Lemma cc_read_u32_u32le : forall n, (n < two32)%N -> read_u32 (u32le n) = Ok n.
Proof.
  intros n Hn. unfold read_u32. change (length (u32le n)) with 4.
  cbn [Nat.ltb Nat.leb]. rewrite rd32_u32le by exact Hn. reflexivity.
Qed.

Lemma cc_read_u64_u64le : forall n, (n < two64)%N -> read_u64 (u64le n) = Ok n.
Proof.
  intros n Hn. unfold read_u64. change (length (u64le n)) with 8.
  cbn [Nat.ltb Nat.leb]. unfold rd64. change (firstn 8 (u64le n)) with (u64le n).
  rewrite rf_rdle_u64le by exact Hn. reflexivity.
Qed.

Lemma cc_read_u64_zero : read_u64 (repeat_byte x00 8) = Ok 0%N.
Proof. vm_compute. reflexivity. Qed.

Lemma cc_read_u64_ff : read_u64 (repeat_byte xff 8) = Ok (two64 - 1)%N.
Proof. vm_compute. reflexivity. Qed.

(* ---------- map[&tag] on the messages of a reply ---------- *)

Lemma cc_idx_six : forall a b c d e f,
  idx (rf_six a b c d e f) SIG = Ok a /\ idx (rf_six a b c d e f) PATH = Ok c
  /\ idx (rf_six a b c d e f) SREP = Ok d /\ idx (rf_six a b c d e f) CERT = Ok e
  /\ idx (rf_six a b c d e f) INDX = Ok f.
Proof. intros. repeat split; reflexivity. Qed.

Lemma cc_idx_srep : forall v now root,
  idx (rf_srep_msg v now root) MIDP = Ok (u64le (midp_of v now))
  /\ idx (rf_srep_msg v now root) RADI = Ok (u32le (radi_of v))
  /\ idx (rf_srep_msg v now root) ROOT = Ok root.
Proof. intros [|] now root; repeat split; reflexivity. Qed.

(* ---------- to_time ---------- *)

Lemma cc_to_time : forall v m, (fst (time_of v m) <= TS_MAX)%N ->
  to_time v m = Ok (fst (time_of v m), snd (time_of v m)).
Proof.
  intros [|] m Hm; unfold to_time, time_of in *; cbn [fst snd] in *; cbv zeta.
  - replace (TS_MAX <? m / 1000000)%N with false by (symmetry; apply N.ltb_ge; exact Hm).
    f_equal. f_equal. lia.
  - replace (TS_MAX <? m)%N with false by (symmetry; apply N.ltb_ge; exact Hm).
    reflexivity.
Qed.

(* ---------- receive_response ---------- *)

Lemma cc_receive_classic : forall bs m, (lenN bs < two32)%N -> ref_decode bs = Some m ->
  receive_response Google bs = Ok m.
Proof.
  intros bs m Hlen Hdec. unfold receive_response.
  rewrite (cc_from_bytes_of_ref bs m Hlen Hdec). reflexivity.
Qed.

Lemma cc_receive_ietf : forall p m, (12 + length p <= RECV_BUF) -> ref_decode p = Some m ->
  receive_response RfcDraft13 (REQUEST_FRAMING_BYTES ++ u32le (lenN p) ++ p) = Ok m.
Proof.
  intros p m Hfit Hdec.
  assert (Hp32 : (lenN p < two32)%N).
  { unfold lenN, two32. unfold RECV_BUF in Hfit. lia. }
  unfold receive_response. cbv zeta.
  rewrite cc_framed_length.
  set (pad := repeat_byte x00 (RECV_BUF - (12 + length p))).
  assert (Hpad : length pad = RECV_BUF - (12 + length p)) by apply rf_repeat_byte_length.
  unfold verify_framing.
  change (firstn 8 ((REQUEST_FRAMING_BYTES ++ u32le (lenN p) ++ p) ++ pad)) with REQUEST_FRAMING_BYTES.
  rewrite bytes_eqb_refl. cbn [negb].
  change (skipn 8 ((REQUEST_FRAMING_BYTES ++ u32le (lenN p) ++ p) ++ pad))
    with (u32le (lenN p) ++ p ++ pad).
  change (firstn 4 (u32le (lenN p) ++ p ++ pad)) with (u32le (lenN p)).
  rewrite rd32_u32le by exact Hp32.
  change (length ((REQUEST_FRAMING_BYTES ++ u32le (lenN p) ++ p) ++ pad))
    with (12 + length (p ++ pad)).
  rewrite app_length, Hpad.
  replace (N.of_nat (12 + (length p + (RECV_BUF - (12 + length p))) - 12) <? lenN p)%N with false
    by (symmetry; apply N.ltb_ge; unfold lenN; lia).
  cbn [unwrap obind].
  unfold slice.
  change (length ((REQUEST_FRAMING_BYTES ++ u32le (lenN p) ++ p) ++ pad))
    with (12 + length (p ++ pad)).
  rewrite app_length, Hpad.
  replace ((12 + length p <? 12) || (12 + (length p + (RECV_BUF - (12 + length p))) <? 12 + length p))
    with false
    by (symmetry; apply orb_false_iff; split; apply Nat.ltb_ge; lia).
  cbn [obind].
  change (skipn 12 ((REQUEST_FRAMING_BYTES ++ u32le (lenN p) ++ p) ++ pad)) with (p ++ pad).
  replace (12 + length p - 12) with (length p) by lia.
  rewrite enc_firstn_app_exact by reflexivity.
  rewrite (cc_from_bytes_of_ref p m Hp32 Hdec). reflexivity.
Qed.

Section Complete.
  Variable H : bytes -> bytes.
  Variable ed_pk : bytes -> bytes.
  Variable ed_sign : bytes -> bytes -> bytes.
  Variable ed_verify : bytes -> bytes -> bytes -> bool.
  Variable ed_point : bytes -> bool.
  Hypothesis HL : HashLen H.
  Hypothesis HPk : PkLen ed_pk.
  Hypothesis HSig : SigLen ed_sign.
  Hypothesis HSC : SigCorrect ed_pk ed_sign ed_verify.
  Hypothesis HPt : PointOk ed_pk ed_point.

  (* ---------- validate_merkle ---------- *)
  Lemma cc_validate_merkle : forall v nonce request a b path d e i now root,
    (N.of_nat i < two32)%N ->
    (length path mod node_len v = 0)%nat ->
    s_recompute (hashv H v) (match v with Google => nonce | RfcDraft13 => request end) i
                (chunks (node_len v) path) = root ->
    validate_merkle H v nonce request (rf_six a b path d e (u32le (N.of_nat i)))
                    (rf_srep_msg v now root) = Ok (N.of_nat i).
  Proof.
    intros v nonce request a b path d e i now root Hi Hmod Hrec. unfold validate_merkle.
    destruct (cc_idx_six a b path d e (u32le (N.of_nat i))) as (_ & Ep & _ & _ & Ei).
    destruct (cc_idx_srep v now root) as (_ & _ & Er).
    rewrite Ei. cbn [obind]. rewrite (cc_read_u32_u32le _ Hi). cbn [obind].
    rewrite Ep. cbn [obind].
    rewrite (root_from_paths_spec H v i _ path HL).
    replace (length path mod node_len v =? 0)%nat with true by (symmetry; apply Nat.eqb_eq; exact Hmod).
    cbn [obind]. rewrite Er. cbn [obind]. rewrite Hrec, bytes_eqb_refl. reflexivity.
  Qed.

  (* ---------- validate_midpoint ---------- *)
  Lemma cc_validate_midpoint : forall ok midp, (midp < two64)%N ->
    validate_midpoint (rf_dele_msg ed_pk ok) midp = Ok tt.
  Proof.
    intros ok midp Hm. unfold validate_midpoint.
    change (idx (rf_dele_msg ed_pk ok) MINT) with (Ok (repeat_byte x00 8) : res bytes).
    cbn [obind]. rewrite cc_read_u64_zero. cbn [obind].
    change (idx (rf_dele_msg ed_pk ok) MAXT) with (Ok (repeat_byte xff 8) : res bytes).
    cbn [obind]. rewrite cc_read_u64_ff. cbn [obind].
    replace (midp <? 0)%N with false by (symmetry; apply N.ltb_ge; lia).
    replace (two64 - 1 <? midp)%N with false by (symmetry; apply N.ltb_ge; unfold two64 in *; lia).
    reflexivity.
  Qed.

  (* ---------- validate_sig on an honest signature ---------- *)
  Lemma cc_validate_sig : forall s data,
    validate_sig ed_verify ed_point (ed_pk s) (ed_sign s data) data = Ok true.
  Proof.
    intros s data. unfold validate_sig. rewrite verifier_correct.
    rewrite HPk, HPt, HSig. cbn [Nat.eqb andb concat]. rewrite app_nil_r, HSC. reflexivity.
  Qed.

  (* ---------- validate_signatures ---------- *)
  Lemma cc_validate_signatures : forall v lt ok b c f srep,
    validate_signatures ed_verify ed_point v (ed_pk lt)
      (rf_six (ed_sign ok (srep_prefix v ++ srep)) b c srep (cert_bytes_of ed_pk ed_sign v lt ok) f)
      (rf_cert_msg ed_pk ed_sign v lt ok) (rf_dele_msg ed_pk ok) = Ok tt.
  Proof.
    intros v lt ok b c f srep. unfold validate_signatures.
    change (idx (rf_cert_msg ed_pk ed_sign v lt ok) SIG)
      with (Ok (ed_sign lt (dele_prefix v ++ dele_bytes_of ed_pk ok)) : res bytes).
    cbn [obind].
    change (idx (rf_cert_msg ed_pk ed_sign v lt ok) DELE) with (Ok (dele_bytes_of ed_pk ok) : res bytes).
    cbn [obind]. rewrite cc_validate_sig. cbn [obind negb].
    change (idx (rf_dele_msg ed_pk ok) PUBK) with (Ok (ed_pk ok) : res bytes).
    cbn [obind].
    match goal with |- context [idx (rf_six ?a0 ?b0 ?c0 ?d0 ?e0 ?f0)] =>
      destruct (cc_idx_six a0 b0 c0 d0 e0 f0) as (Es & _ & Esr & _ & _) end.
    rewrite Es. cbn [obind]. rewrite Esr. cbn [obind].
    rewrite cc_validate_sig. reflexivity.
  Qed.

  (* ---------- handle_response ---------- *)
  Lemma cc_handle_response : forall v lt ok now pko nonce request b path i root,
    (pko = None \/ pko = Some (ed_pk lt)) ->
    (fst now < two64)%N -> (N.of_nat i < two32)%N ->
    length root = node_len v ->
    (length path mod node_len v = 0)%nat ->
    s_recompute (hashv H v) (match v with Google => nonce | RfcDraft13 => request end) i
                (chunks (node_len v) path) = root ->
    handle_response H ed_verify ed_point v pko nonce request
      (rf_six (ed_sign ok (srep_prefix v ++ srep_bytes_of v now root)) b path
              (srep_bytes_of v now root) (cert_bytes_of ed_pk ed_sign v lt ok) (u32le (N.of_nat i)))
    = Ok (mkparsed (match pko with Some _ => true | None => false end)
                   (midp_of v now) (radi_of v) (N.of_nat i)).
  Proof.
    intros v lt ok now pko nonce request b path i root Hpko Hnow Hi Lroot Hmod Hrec.
    pose proof (rf_midp_lt v now Hnow) as Hmidp.
    assert (Hradi : (radi_of v < two32)%N) by (destruct v; reflexivity).
    unfold handle_response.
    match goal with |- context [idx (rf_six ?a0 ?b0 ?c0 ?d0 ?e0 ?f0) SREP] =>
      destruct (cc_idx_six a0 b0 c0 d0 e0 f0) as (_ & _ & Esr & Ece & _) end.
    destruct (cc_idx_srep v now root) as (Emi & Era & _).
    rewrite Esr. cbn [obind].
    assert (Hs32 : (lenN (srep_bytes_of v now root) < two32)%N).
    { unfold lenN, two32. rewrite rf_srep_len, Lroot. destruct v; cbn [node_len]; lia. }
    assert (Hc32 : (lenN (cert_bytes_of ed_pk ed_sign v lt ok) < two32)%N).
    { unfold lenN, two32. rewrite (rf_cert_len ed_pk ed_sign HPk HSig). lia. }
    assert (Hd32 : (lenN (dele_bytes_of ed_pk ok) < two32)%N).
    { unfold lenN, two32. rewrite (rf_dele_len ed_pk HPk). lia. }
    rewrite (cc_from_bytes_of_ref _ _ Hs32 (rf_srep_decode v now root Lroot)).
    cbn [unwrap obind]. rewrite Ece. cbn [obind].
    rewrite (cc_from_bytes_of_ref _ _ Hc32 (rf_cert_decode ed_pk ed_sign HPk HSig v lt ok)).
    cbn [unwrap obind].
    change (idx (rf_cert_msg ed_pk ed_sign v lt ok) DELE) with (Ok (dele_bytes_of ed_pk ok) : res bytes).
    cbn [obind].
    rewrite (cc_from_bytes_of_ref _ _ Hd32 (rf_dele_decode ed_pk HPk ok)).
    cbn [unwrap obind].
    rewrite Emi. cbn [obind]. rewrite (cc_read_u64_u64le _ Hmidp). cbn [obind].
    rewrite Era. cbn [obind]. rewrite (cc_read_u32_u32le _ Hradi). cbn [obind].
    rewrite (cc_validate_merkle v nonce request _ b path _ _ i now root Hi Hmod Hrec). cbn [obind].
    rewrite (cc_validate_midpoint ok _ Hmidp). cbn [obind].
    destruct Hpko as [-> | ->].
    - reflexivity.
    - rewrite cc_validate_signatures. reflexivity.
  Qed.
End Complete.

Lemma cc_nonce_len : forall srv v ds r, In r (ServerGoals.accepted srv v ds) ->
  length (req_nonce r) = spec_nonce_len v.
Proof.
  intros srv v ds r Hin. pose proof (rf_accepted_In srv v ds r Hin) as Hw. destruct v.
  - apply rf_wellformed_google in Hw. destruct Hw as (m & _ & _ & Hl). exact Hl.
  - apply rf_wellformed_ietf in Hw. destruct Hw as (p & m & _ & _ & _ & Hl). exact Hl.
Qed.

Lemma client_complete : forall H ed_pk ed_sign ed_verify ed_point,
  goal_client_complete H ed_pk ed_sign ed_verify ed_point.
Proof.
  intros H ed_pk ed_sign ed_verify ed_point HL HPk HSig HSC HPt
         v srv lt ok now ds i pko reqs r Hi H64 Hnow Hts Hpko.
  assert (Hin : In r reqs) by (apply nth_In; exact Hi).
  pose proof (cc_nonce_len srv v ds r Hin) as Lnonce.
  set (ls := map (leaf_of v) reqs).
  assert (Hls : length ls = length reqs) by apply map_length.
  assert (Hne : ls <> []) by (intro E; rewrite E in Hls; cbn in Hls; lia).
  assert (Hil : (i < length ls)%nat) by lia.
  pose proof (rf_root_len H HL v ls Hne) as Lroot.
  set (nodes := s_path (hashv H v) (node_len v) ls i).
  assert (Epath : nth i (spec_paths H v ls) [] = concat nodes) by (apply rf_paths_nth; exact Hil).
  pose proof (rf_path_nodes H HL v ls i) as Hnodes. fold nodes in Hnodes.
  assert (Hd6 : (length nodes <= 6)%nat).
  { apply rf_depth_le. rewrite Hls. change (2 ^ 6)%nat with 64%nat. exact H64. }
  pose proof (rf_concat_length _ _ Hnodes) as Lpath.
  assert (Hi32 : (N.of_nat i < two32)%N) by (unfold two32; lia).
  assert (Hmod : (length (concat nodes) mod node_len v = 0)%nat).
  { rewrite Lpath, Nat.mul_comm. apply Nat.mod_mul. destruct v; discriminate. }
  assert (Hrec : s_recompute (hashv H v)
                   (match v with Google => req_nonce r | RfcDraft13 => req_dgram r end) i
                   (chunks (node_len v) (concat nodes)) = spec_root H v ls).
  { rewrite rf_chunks_concat by (try exact Hnodes; destruct v; cbn [node_len]; lia).
    pose proof (complete (hashv H v) (node_len v) ls i Hil) as Hc.
    unfold ls in Hc at 1. rewrite rf_leaf_nth in Hc. exact Hc. }
  set (root := spec_root H v ls) in *.
  set (srep := srep_bytes_of v now root).
  set (M := rf_six (ed_sign ok (srep_prefix v ++ srep)) (req_nonce r) (concat nodes) srep
                   (cert_bytes_of ed_pk ed_sign v lt ok) (u32le (N.of_nat i))).
  assert (HszM : encoded_size M
                 = (match v with Google => 432 | RfcDraft13 => 396 end + node_len v * length nodes)%nat).
  { unfold M, srep. rewrite rf_six_size, HSig, Lnonce, Lpath, rf_srep_len, Lroot,
      (rf_cert_len ed_pk ed_sign HPk HSig).
    destruct v; cbn [length u32le node_len spec_nonce_len]; lia. }
  assert (HdecM : ref_decode (canon M) = Some M).
  { apply rf_six_decode.
    - rewrite HSig. reflexivity.
    - rewrite Lnonce. destruct v; reflexivity.
    - rewrite Lpath. destruct v; cbn [node_len]; lia.
    - unfold srep. rewrite rf_srep_len, Lroot. destruct v; reflexivity.
    - rewrite (rf_cert_len ed_pk ed_sign HPk HSig). reflexivity.
    - reflexivity.
    - fold M. rewrite HszM. unfold two32. destruct v; cbn [node_len]; lia. }
  assert (Erecv : receive_response v (reply_bytes H ed_pk ed_sign v lt ok now reqs i) = Ok M).
  { unfold reply_bytes. rewrite rf_reply_msg_six. fold r. fold ls. rewrite Epath.
    fold root. fold srep. fold M.
    destruct v; unfold frame_for.
    - apply cc_receive_classic; [|exact HdecM].
      unfold lenN, two32. rewrite canon_length, HszM. cbn [node_len]. lia.
    - apply cc_receive_ietf; [|exact HdecM].
      rewrite canon_length, HszM. unfold RECV_BUF. cbn [node_len]. lia. }
  unfold client_handle. rewrite Erecv. cbn [obind].
  unfold M, srep.
  rewrite (cc_handle_response H ed_pk ed_sign ed_verify ed_point HL HPk HSig HSC HPt
             v lt ok now pko (req_nonce r) (req_dgram r) (req_nonce r) (concat nodes) i root
             Hpko Hnow Hi32 Lroot Hmod Hrec).
  cbn [obind p_verified p_midpoint p_radius p_index].
  rewrite (cc_to_time v (midp_of v now) Hts). reflexivity.
Qed.
Print Assumptions client_complete.
