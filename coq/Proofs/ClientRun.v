(* ClientRun.v — C01 for a whole `-n N` run of the client (Model/Client.v client_run): every time
   printed belongs to an authentic response for THAT request; the first unauthentic response ends
   the process with a panic (non-zero exit) and nothing is printed for it or after it. *)
Require Import RV.Model.Bytes RV.Gen.Tables RV.Model.Tag RV.Model.Message RV.Model.Merkle
        RV.Model.Keys RV.Model.Sign RV.Model.Client.
Require Import RV.Spec.RefCodec RV.Spec.RefMerkle RV.Spec.MerkleGoals RV.Spec.RefVerify
        RV.Spec.CodecGoals RV.Spec.ClientGoals.
Require Import RV.Proofs.ClientSound.
From Coq Require Import ZArith Lia.
Local Open Scope N_scope.

Definition arrived_ok (x : exchange) : Prop :=
  match ex_arrival x with Arrived d => (length d <= 4096)%nat | TimedOut => True end.

Section Run.
  Variable H : bytes -> bytes.
  Variable ed_verify : bytes -> bytes -> bytes -> bool.
  Variable ed_point : bytes -> bool.
  Hypothesis HL : HashLen H.

  Notation run := (client_run H ed_verify ed_point).
  Notation handle := (client_handle H ed_verify ed_point).
  Notation auth := (authentic H ed_verify ed_point).

  Definition good_output (v : version) (pk : bytes) (x : exchange) (o : client_out) : Prop :=
    exists d, ex_arrival x = Arrived d
      /\ auth v pk (ex_request x) (ex_nonce x) d = true
      /\ o_verified o = true
      /\ exists midp, signed_midpoint v d = Some midp /\ (o_secs o, o_nsecs o) = time_of v midp.

  Lemma run_outputs_sec : forall v pk xs outs e,
    Forall arrived_ok xs -> run v (Some pk) xs = (outs, e) ->
    (length outs <= length xs)%nat
    /\ (forall i o, nth_error outs i = Some o ->
          exists x, nth_error xs i = Some x /\ good_output v pk x o)
    /\ (e = RunDone -> length outs = length xs).
  Proof.
    intros v pk xs. induction xs as [|x rest IH]; intros outs e Hok Hrun.
    - cbn in Hrun. injection Hrun as <- <-. split; [cbn; lia|]. split; [|reflexivity].
      intros i o Hn. destruct i; discriminate Hn.
    - inversion Hok as [|x0 r0 Hx Hrest]; subst.
      cbn [client_run] in Hrun. unfold arrived_ok in Hx.
      destruct (ex_arrival x) as [d|] eqn:Ea.
      + destruct (handle v (Some pk) (ex_nonce x) (ex_request x) d) as [o|er|s] eqn:Eh.
        * destruct (run v (Some pk) rest) as [os e'] eqn:Er.
          injection Hrun as <- <-.
          destruct (IH os e' Hrest eq_refl) as (Hlen & Hall & Hdone).
          split; [cbn; lia|]. split.
          -- intros i o' Hn. destruct i as [|i].
             ++ cbn in Hn. injection Hn as <-. exists x. split; [reflexivity|].
                destruct (client_sound H ed_verify ed_point HL v pk _ _ d o Hx Eh) as (A & B & C).
                exists d. repeat split; assumption.
             ++ cbn in Hn. apply Hall in Hn. exact Hn.
          -- intros He. cbn. f_equal. apply Hdone. exact He.
        * injection Hrun as <- <-. split; [cbn; lia|]. split; [|discriminate].
          intros i o Hn. destruct i; discriminate Hn.
        * injection Hrun as <- <-. split; [cbn; lia|]. split; [|discriminate].
          intros i o Hn. destruct i; discriminate Hn.
      + injection Hrun as <- <-. split; [cbn; lia|]. split; [|discriminate].
        intros i o Hn. destruct i; discriminate Hn.
  Qed.

  (* an unauthentic response that is reached (nothing before it timed out) ends the run with a
     panic, and neither it nor anything after it is printed *)
  Lemma run_rejects_sec : forall v pk xs i x d outs e,
    Forall arrived_ok xs -> run v (Some pk) xs = (outs, e) ->
    nth_error xs i = Some x -> ex_arrival x = Arrived d ->
    auth v pk (ex_request x) (ex_nonce x) d = false ->
    (forall j x', (j < i)%nat -> nth_error xs j = Some x' -> ex_arrival x' <> TimedOut) ->
    exit_zero e = false /\ (length outs <= i)%nat.
  Proof.
    intros v pk xs. induction xs as [|y rest IH]; intros i x d outs e Hok Hrun Hn Ha Hf Hbefore.
    - destruct i; discriminate Hn.
    - inversion Hok as [|y0 r0 Hy Hrest]; subst.
      cbn [client_run] in Hrun. unfold arrived_ok in Hy.
      destruct i as [|i].
      + cbn in Hn. injection Hn as ->. rewrite Ha in Hrun, Hy.
        destruct (handle v (Some pk) (ex_nonce x) (ex_request x) d) as [o|er|s] eqn:Eh.
        * destruct (client_sound H ed_verify ed_point HL v pk _ _ d o Hy Eh) as (A & _).
          rewrite A in Hf. discriminate Hf.
        * injection Hrun as <- <-. split; [reflexivity|cbn; lia].
        * injection Hrun as <- <-. split; [reflexivity|cbn; lia].
      + cbn in Hn.
        destruct (ex_arrival y) as [dy|] eqn:Ey.
        * destruct (handle v (Some pk) (ex_nonce y) (ex_request y) dy) as [o|er|s] eqn:Eh.
          -- destruct (run v (Some pk) rest) as [os e'] eqn:Er.
             injection Hrun as <- <-.
             destruct (IH i x d os e' Hrest eq_refl Hn Ha Hf) as (E1 & E2).
             { intros j x' Hj Hnj. apply (Hbefore (S j) x'); [lia|exact Hnj]. }
             split; [exact E1|cbn; lia].
          -- injection Hrun as <- <-. split; [reflexivity|cbn; lia].
          -- injection Hrun as <- <-. split; [reflexivity|cbn; lia].
        * exfalso. apply (Hbefore 0%nat y); [lia|reflexivity|exact Ey].
  Qed.

  (* without a key no output of a run is reported as verified *)
  Lemma run_unverified_sec : forall v xs outs e,
    run v None xs = (outs, e) -> Forall (fun o => o_verified o = false) outs.
  Proof.
    intros v xs. induction xs as [|x rest IH]; intros outs e Hrun.
    - cbn in Hrun. injection Hrun as <- <-. constructor.
    - cbn [client_run] in Hrun. destruct (ex_arrival x) as [d|].
      + destruct (handle v None (ex_nonce x) (ex_request x) d) as [o|er|s] eqn:Eh.
        * destruct (run v None rest) as [os e'] eqn:Er. injection Hrun as <- <-.
          constructor; [|apply (IH os e' eq_refl)].
          exact (client_unverified H ed_verify ed_point v _ _ d o Eh).
        * injection Hrun as <- <-. constructor.
        * injection Hrun as <- <-. constructor.
      + injection Hrun as <- <-. constructor.
  Qed.
End Run.

Lemma run_outputs : forall H ed_verify ed_point, HashLen H -> forall v pk xs outs e,
    Forall arrived_ok xs -> client_run H ed_verify ed_point v (Some pk) xs = (outs, e) ->
    (length outs <= length xs)%nat
    /\ (forall i o, nth_error outs i = Some o ->
          exists x, nth_error xs i = Some x /\ good_output H ed_verify ed_point v pk x o)
    /\ (e = RunDone -> length outs = length xs).
Proof. exact run_outputs_sec. Qed.

Lemma run_rejects : forall H ed_verify ed_point, HashLen H -> forall v pk xs i x d outs e,
    Forall arrived_ok xs -> client_run H ed_verify ed_point v (Some pk) xs = (outs, e) ->
    nth_error xs i = Some x -> ex_arrival x = Arrived d ->
    authentic H ed_verify ed_point v pk (ex_request x) (ex_nonce x) d = false ->
    (forall j x', (j < i)%nat -> nth_error xs j = Some x' -> ex_arrival x' <> TimedOut) ->
    exit_zero e = false /\ (length outs <= i)%nat.
Proof. exact run_rejects_sec. Qed.

Lemma run_unverified : forall H ed_verify ed_point v xs outs e,
    client_run H ed_verify ed_point v None xs = (outs, e) -> Forall (fun o => o_verified o = false) outs.
Proof. exact run_unverified_sec. Qed.
