(* CodeMessage.v — src/message.rs as translated from the source on this run (Gen/Code.v:
   add_field, get_field, encoded_size, encode, encode_framed, calculate_padding_length,
   single_tag_message, multi_tag_message, from_bytes) against Model/Message.v.

   Inside message.rs a message is the pair of vectors `tags` / `values`; the model's message is the
   list of pairs. `combine tags values` relates them (the two vectors always have the same length:
   add_field, the only writer, pushes to both). *)
Require Import RV.Model.Bytes RV.Gen.Tables RV.Model.Tag RV.Model.Message RV.Model.GenSupport RV.Gen.Code.
Require Import RV.Proofs.TagFacts RV.Proofs.BytesFacts.
From Coq Require Import ZArith Lia ZifyN ZifyBool ZifyNat List.
Import ListNotations.
Ltac Zify.zify_post_hook ::= Z.div_mod_to_equations.
Local Open Scope N_scope.

(* ------------------------------------------------------------------ the two representations *)

Definition unzip (m : msg) : list tag * list bytes := (map fst m, map snd m).

Lemma km_combine_snoc : forall {A B} (a : list A) (b : list B) x y, length a = length b ->
  combine (a ++ [x]) (b ++ [y]) = combine a b ++ [(x, y)].
Proof.
  induction a as [|a0 a IH]; intros [|b0 b] x y Hl; cbn [length] in Hl; try discriminate; [reflexivity|].
  cbn [app combine]. rewrite IH by lia. reflexivity.
Qed.

Lemma km_last_combine : forall (tags : list tag) (values : list bytes), length tags = length values ->
  last_tag (combine tags values) = last_opt tags.
Proof.
  intros tags. induction tags as [|t tags IH] using rev_ind; intros values Hl.
  - reflexivity.
  - destruct values as [|v values _] using rev_ind.
    + rewrite app_length in Hl. cbn in Hl. lia.
    + rewrite !app_length in Hl. cbn [length] in Hl.
      rewrite km_combine_snoc by lia. unfold last_tag, last_opt. rewrite !rev_app_distr. reflexivity.
Qed.

Lemma km_unzip_snoc : forall m t v, unzip (m ++ [(t, v)]) = (fst (unzip m) ++ [t], snd (unzip m) ++ [v]).
Proof. intros. unfold unzip. rewrite !map_app. reflexivity. Qed.

Lemma km_unzip_combine : forall (tags : list tag) (values : list bytes), length tags = length values ->
  unzip (combine tags values) = (tags, values).
Proof.
  intros. unfold unzip. rewrite map_fst_combine, map_snd_combine by lia. reflexivity.
Qed.

(* ------------------------------------------------------------------ add_field *)

Definition omap {A B} (f : A -> B) (x : res A) : res B :=
  match x with Ok a => Ok (f a) | Err e => Err e | Panic s => Panic s end.

Lemma gen_add_field_model : forall tags values t v, length tags = length values ->
  gen_add_field tags values t v = omap unzip (add_field (combine tags values) t v).
Proof.
  intros tags values t v Hl. unfold gen_add_field, add_field.
  rewrite km_last_combine by exact Hl.
  destruct (last_opt tags) as [lt|].
  - destruct (tag_le t lt); cbn [obind omap]; [reflexivity|].
    rewrite km_unzip_snoc, km_unzip_combine by exact Hl. reflexivity.
  - cbn [obind omap]. rewrite km_unzip_snoc, km_unzip_combine by exact Hl. reflexivity.
Qed.

(* add_field keeps the two vectors the same length *)
Lemma gen_add_field_lengths : forall tags values t v tags' values', length tags = length values ->
  gen_add_field tags values t v = Ok (tags', values') -> length tags' = length values'.
Proof.
  intros tags values t v tags' values' Hl H. rewrite gen_add_field_model in H by exact Hl.
  destruct (add_field (combine tags values) t v) as [m| |]; cbn [omap] in H; try discriminate.
  injection H as <- <-. rewrite !map_length. reflexivity.
Qed.

(* ------------------------------------------------------------------ get_field *)

Lemma km_get_loop : forall (tags : list tag) (values : list bytes) t (k : nat) (pre : list bytes),
  length pre = k -> length tags = length values ->
  match loop_ret (combine (map N.of_nat (seq k (length tags))) tags)
        (fun x_it : N * tag => let '(i, self_tag) := x_it in
           if tag_eqb t self_tag
           then Some (obind (vec_idx_p site_gen (pre ++ values) i) (fun e => Ok (Some e)))
           else None)
  with Some r => r | None => Ok None end
  = Ok (get_field (combine tags values) t).
Proof.
  induction tags as [|u tags IH]; intros [|v values] t k pre Hk Hl; cbn [length] in Hl; try discriminate.
  - reflexivity.
  - cbn [length seq map combine loop_ret get_field].
    destruct (tag_eqb t u).
    + unfold vec_idx_p. rewrite Nat2N.id, nth_error_app2 by lia.
      replace (k - length pre)%nat with 0%nat by lia. reflexivity.
    + specialize (IH values t (S k) (pre ++ [v])). rewrite <- app_assoc in IH. cbn [app] in IH.
      apply IH; [rewrite app_length; cbn; lia | lia].
Qed.

Lemma gen_get_field_model : forall tags values t, length tags = length values ->
  gen_get_field tags values t = Ok (get_field (combine tags values) t).
Proof.
  intros tags values t Hl. unfold gen_get_field, enumerate_n.
  exact (km_get_loop tags values t 0 [] eq_refl Hl).
Qed.

(* ------------------------------------------------------------------ encoded_size, encode *)
Require Import RV.Proofs.CodecEncode.

Lemma km_sum_len : forall (tags : list tag) (values : list bytes), length tags = length values ->
  sum_len values = N.of_nat (sum_lengths (combine tags values)).
Proof.
  induction tags as [|t tags IH]; intros [|v values] Hl; cbn [length] in Hl; try discriminate; [reflexivity|].
  cbn [sum_len fold_right combine sum_lengths]. fold (sum_len values). rewrite (IH values) by lia.
  unfold lenN. lia.
Qed.

Lemma km_combine_length : forall (tags : list tag) (values : list bytes), length tags = length values ->
  length (combine tags values) = length tags.
Proof. intros. rewrite combine_length. lia. Qed.

Lemma gen_encoded_size_model : forall tags values, length tags = length values ->
  gen_encoded_size tags values = Ok (N.of_nat (encoded_size (combine tags values))).
Proof.
  intros tags values Hl. unfold gen_encoded_size, encoded_size, sub_chk.
  rewrite (km_sum_len tags values Hl), km_combine_length by exact Hl.
  unfold lenN. set (n := length tags). set (sl := sum_lengths _).
  destruct (N.of_nat n <? 2) eqn:E2.
  - cbn [obind]. replace (n <? 2)%nat with true by lia. f_equal. lia.
  - replace (N.of_nat n <? 1) with false by lia. cbn [obind].
    replace (n <? 2)%nat with false by lia. f_equal. lia.
Qed.

Lemma km_fold_tags : forall (tags : list tag) (values : list bytes) out, length tags = length values ->
  fold_res (fun (o : bytes) (tg : tag) => Ok (o ++ tag_wire tg)) tags out
  = Ok (out ++ enc_tags (combine tags values)).
Proof.
  induction tags as [|t tags IH]; intros [|v values] out Hl; cbn [length] in Hl; try discriminate.
  - cbn. rewrite app_nil_r. reflexivity.
  - cbn [fold_res obind combine enc_tags]. rewrite (IH values) by lia. rewrite <- app_assoc. reflexivity.
Qed.

Lemma km_fold_values : forall (tags : list tag) (values : list bytes) out, length tags = length values ->
  fold_res (fun (o : bytes) (v : bytes) => Ok (o ++ v)) values out
  = Ok (out ++ enc_values (combine tags values)).
Proof.
  induction tags as [|t tags IH]; intros [|v values] out Hl; cbn [length] in Hl; try discriminate.
  - cbn. rewrite app_nil_r. reflexivity.
  - cbn [fold_res obind combine enc_values]. rewrite (IH values) by lia. rewrite <- app_assoc. reflexivity.
Qed.

Lemma km_fold_offsets : forall (tags : list tag) (values : list bytes) out s, length tags = length values ->
  fold_res (fun '(o, sum) (v : bytes) => Ok (o ++ u32le (as_u32 sum), sum + lenN v)) values (out, N.of_nat s)
  = Ok (out ++ enc_offsets s (combine tags values), N.of_nat (s + sum_lengths (combine tags values))).
Proof.
  induction tags as [|t tags IH]; intros [|v values] out s Hl; cbn [length] in Hl; try discriminate.
  - cbn. rewrite app_nil_r, Nat.add_0_r. reflexivity.
  - cbn [fold_res obind combine enc_offsets sum_lengths].
    replace (N.of_nat s + lenN v) with (N.of_nat (s + length v)) by (unfold lenN; lia).
    rewrite (IH values) by lia. rewrite <- app_assoc. do 3 f_equal. lia.
Qed.

Lemma km_out_length : forall m offs,
  length offs = (if (length m <? 2)%nat then 0 else 4 * (length m - 1))%nat ->
  length (u32le (as_u32 (N.of_nat (length m))) ++ offs ++ enc_tags m ++ enc_values m) = encoded_size m.
Proof.
  intros m offs Ho. rewrite !app_length, length_u32le, enc_tags_length, enc_values_length, Ho.
  unfold encoded_size. destruct (length m <? 2)%nat; lia.
Qed.

Lemma gen_encode_model : forall tags values, length tags = length values ->
  gen_encode tags values = encode (combine tags values).
Proof.
  intros tags values Hl. unfold gen_encode, encode.
  rewrite gen_encoded_size_model by exact Hl. cbn [obind].
  rewrite km_combine_length by exact Hl. cbn [app].
  destruct tags as [|t0 tags]; destruct values as [|v0 values]; cbn [length] in Hl; try discriminate.
  - (* the empty message *)
    cbn [length lenN]. change (N.of_nat 0) with 0. replace (1 <? 0) with false by reflexivity.
    cbn [obind fold_res combine Nat.ltb Nat.leb enc_tags enc_values app].
    reflexivity.
  - cbn [length combine]. unfold lenN at 1. cbn [length].
    destruct (1 <? N.of_nat (S (length tags))) eqn:E1.
    + replace (1 <? S (length tags))%nat with true by lia.
      unfold vec_idx_p. change (N.to_nat 0) with 0%nat. cbn [nth_error obind].
      unfold slice_l. replace ((lenN (v0 :: values) <? 1) || (lenN (v0 :: values) <? lenN (v0 :: values))) with false
        by (unfold lenN; cbn [length]; lia).
      change (N.to_nat 1) with 1%nat. cbn [skipn obind].
      replace (N.to_nat (lenN (v0 :: values) - 1)) with (length values) by (unfold lenN; cbn [length]; lia).
      rewrite firstn_all.
      unfold lenN at 1. rewrite (km_fold_offsets tags values _ (length v0)) by lia. cbn [obind].
      rewrite (km_fold_tags (t0 :: tags) (v0 :: values)) by (cbn [length]; lia). cbn [obind].
      rewrite (km_fold_values (t0 :: tags) (v0 :: values)) by (cbn [length]; lia). cbn [obind].
      cbn [combine]. rewrite <- !app_assoc.
      set (m := (t0, v0) :: combine tags values).
      set (offs := enc_offsets (length v0) (combine tags values)).
      assert (Hlen : length (u32le (as_u32 (N.of_nat (length m))) ++ offs ++ enc_tags m ++ enc_values m) = encoded_size m).
      { apply km_out_length. subst offs m. rewrite enc_offsets_length. cbn [length].
        rewrite km_combine_length by lia. replace (S (length tags) <? 2)%nat with false by lia. lia. }
      assert (Hm : length m = S (length tags)) by (subst m; cbn [length]; rewrite km_combine_length by lia; reflexivity).
      unfold lenN. cbn [length]. rewrite <- Hm. rewrite Hlen. rewrite N.eqb_refl, Nat.eqb_refl. reflexivity.
    + replace (1 <? S (length tags))%nat with false by lia. cbn [obind].
      rewrite (km_fold_tags (t0 :: tags) (v0 :: values)) by (cbn [length]; lia). cbn [obind].
      rewrite (km_fold_values (t0 :: tags) (v0 :: values)) by (cbn [length]; lia). cbn [obind].
      cbn [combine app]. rewrite <- !app_assoc.
      set (m := (t0, v0) :: combine tags values).
      assert (Hm : length m = S (length tags)) by (subst m; cbn [length]; rewrite km_combine_length by lia; reflexivity).
      assert (Hlen : length (u32le (as_u32 (N.of_nat (length m))) ++ [] ++ enc_tags m ++ enc_values m) = encoded_size m).
      { apply km_out_length. rewrite Hm. replace (S (length tags) <? 2)%nat with true by lia. reflexivity. }
      cbn [app] in Hlen. unfold lenN. cbn [length]. rewrite <- Hm. rewrite Hlen. rewrite N.eqb_refl, Nat.eqb_refl. reflexivity.
Qed.

Lemma gen_encode_framed_model : forall tags values, length tags = length values ->
  gen_encode_framed tags values = encode_framed (combine tags values).
Proof.
  intros tags values Hl. unfold gen_encode_framed, encode_framed.
  rewrite gen_encode_model by exact Hl.
  destruct (encode (combine tags values)); cbn [obind app]; reflexivity.
Qed.

(* calculate_padding_length: `padding_needed -= 4` underflows (a panic in a debug build) for a
   one-field message whose encoded size is 1021..1023; the model's saturating subtraction is only
   claimed outside that case, and the translated code is shown to panic inside it. *)
Lemma gen_calculate_padding_length_model : forall tags values, length tags = length values ->
  (length tags <> 1 \/ 1024 <= encoded_size (combine tags values) \/ encoded_size (combine tags values) + 4 <= 1024)%nat ->
  gen_calculate_padding_length tags values
  = Ok (N.of_nat (calculate_padding_length (combine tags values))).
Proof.
  intros tags values Hl Hcase. unfold gen_calculate_padding_length, calculate_padding_length, sub_chk.
  rewrite gen_encoded_size_model by exact Hl. cbn [obind].
  rewrite km_combine_length by exact Hl.
  set (sz := encoded_size _) in *. unfold lenN.
  destruct (1024 <=? N.of_nat sz) eqn:E.
  - replace (1024 <=? sz)%nat with true by lia. reflexivity.
  - replace (1024 <=? sz)%nat with false by lia.
    replace (1024 <? N.of_nat sz) with false by lia. cbn [obind].
    destruct (N.of_nat (length tags) =? 1) eqn:E1.
    + replace (length tags =? 1)%nat with true by lia.
      replace (1024 - N.of_nat sz <? 4) with false by lia. cbn [obind]. f_equal. lia.
    + replace (length tags =? 1)%nat with false by lia. cbn [obind]. f_equal. lia.
Qed.

Lemma gen_calculate_padding_length_underflow : forall tags values, length tags = length values ->
  length tags = 1%nat -> (1020 < encoded_size (combine tags values) < 1024)%nat ->
  gen_calculate_padding_length tags values = Panic site_gen.
Proof.
  intros tags values Hl H1 Hsz. unfold gen_calculate_padding_length, sub_chk.
  rewrite gen_encoded_size_model by exact Hl. cbn [obind].
  set (sz := encoded_size _) in *. unfold lenN. rewrite H1.
  replace (1024 <=? N.of_nat sz) with false by lia.
  replace (1024 <? N.of_nat sz) with false by lia. cbn [obind].
  change (N.of_nat 1 =? 1) with true. cbv iota.
  replace (1024 - N.of_nat sz <? 4) with true by lia. reflexivity.
Qed.

(* ------------------------------------------------------------------ from_bytes *)
Require Import RV.Proofs.CodecDecode.

Lemma km_rest_adv : forall d p k, cur_rest (d, p + k) = skipn (N.to_nat k) (cur_rest (d, p)).
Proof.
  intros. unfold cur_rest. cbn [fst snd]. rewrite skipn_skipn'. f_equal. lia.
Qed.

Lemma km_rd32_firstn : forall r, (4 <= length r)%nat -> rd32 r = rd32 (firstn 4 r).
Proof.
  intros r H. destruct r as [|a [|b [|c [|d r]]]]; cbn [length] in H; try lia. reflexivity.
Qed.

(* the offsets loop: the translated fold is the model's read_offsets on what is left of the cursor *)
Lemma km_offsets_loop : forall (blen : N) (l : list N) d p offs0,
  fold_res (fun '(m, offsets) (_ : N) =>
      obind (cur_read_u32 m) (fun '(offset, m') =>
      obind (if negb (offset mod 4 =? 0) then Err (InvalidAlignment offset)
             else if blen <? offset then Err (InvalidOffsetValue offset) else Ok tt) (fun _ =>
      Ok (m', offsets ++ [offset])))) l ((d, p), offs0)
  = obind (read_offsets (length l) (cur_rest (d, p)) blen) (fun '(os, _) =>
      Ok ((d, p + 4 * N.of_nat (length l)), offs0 ++ os)).
Proof.
  induction l as [|x l IH]; intros d p offs0.
  - cbn [fold_res length read_offsets obind]. rewrite app_nil_r. do 3 f_equal. lia.
  - cbn [fold_res length read_offsets]. unfold cur_read_u32 at 1. cbn [fst snd].
    destruct (cur_rest (d, p)) as [|a [|b [|c [|e rest]]]] eqn:Er; try reflexivity.
    replace (length (a :: b :: c :: e :: rest) <? 4)%nat with false by (cbn [length]; lia).
    cbn [obind]. rewrite (rd32_4 a b c e rest).
    set (off := rd32 [a; b; c; e]).
    destruct (negb (off mod 4 =? 0)); [reflexivity|].
    destruct (blen <? off); [reflexivity|]. cbn [obind].
    rewrite IH. rewrite km_rest_adv, Er. change (N.to_nat 4) with 4%nat. cbn [skipn].
    destruct (read_offsets (length l) rest blen) as [[os r]| |]; cbn [obind]; [|reflexivity|reflexivity].
    rewrite <- app_assoc. cbn [app]. do 3 f_equal. lia.
Qed.

Lemma km_last_snoc : forall {A} (l : list A) x, last_opt (l ++ [x]) = Some x.
Proof. intros. unfold last_opt. rewrite rev_app_distr. reflexivity. Qed.

(* the tags loop *)
Lemma km_tags_loop : forall (l : list N) d p (buf0 : bytes) ts0,
  omap (fun '(_, m, ts) => (m, ts))
    (fold_res (fun '(buf, m, tags) (_ : N) =>
      obind (match cur_read_exact m 4 with
             | None => Err MessageTooShort
             | Some (buf', m') => Ok (buf', m') end) (fun '(buf', m') =>
      obind (tag_from_wire_r buf') (fun tg =>
      obind (match last_opt tags with
             | Some lt => obind (if tag_le tg lt then Err (TagNotStrictlyIncreasing tg) else Ok tt) (fun _ => Ok tt)
             | _ => Ok tt end) (fun _ =>
      Ok (buf', m', tags ++ [tg]))))) l (buf0, (d, p), ts0))
  = obind (read_tags (length l) (cur_rest (d, p)) (last_opt ts0)) (fun '(ts, _) =>
      Ok ((d, p + 4 * N.of_nat (length l)), ts0 ++ ts)).
Proof.
  induction l as [|x l IH]; intros d p buf0 ts0.
  - cbn [fold_res length read_tags obind omap]. rewrite app_nil_r. do 3 f_equal. lia.
  - cbn [fold_res length read_tags]. unfold cur_read_exact at 1. cbn [fst snd].
    destruct (cur_rest (d, p)) as [|a [|b [|c [|e rest]]]] eqn:Er; try reflexivity.
    replace (length (a :: b :: c :: e :: rest) <? 4)%nat with false by (cbn [length]; lia).
    cbn [obind firstn]. unfold tag_from_wire_r at 1.
    destruct (tag_of_wire [a; b; c; e]) as [t|]; [|reflexivity]. cbn [obind].
    destruct (last_opt ts0) as [lt|].
    + destruct (tag_le t lt); [reflexivity|]. cbn [obind].
      rewrite IH. rewrite km_rest_adv, Er. change (N.to_nat (N.of_nat 4)) with 4%nat. cbn [skipn].
      rewrite km_last_snoc.
      destruct (read_tags (length l) rest (Some t)) as [[ts r]| |]; cbn [obind]; [|reflexivity|reflexivity].
      rewrite <- app_assoc. cbn [app]. do 3 f_equal. lia.
    + cbn [obind].
      rewrite IH. rewrite km_rest_adv, Er. change (N.to_nat (N.of_nat 4)) with 4%nat. cbn [skipn].
      rewrite km_last_snoc.
      destruct (read_tags (length l) rest (Some t)) as [[ts r]| |]; cbn [obind]; [|reflexivity|reflexivity].
      rewrite <- app_assoc. cbn [app]. do 3 f_equal. lia.
Qed.

(* the values loop *)
Lemma km_slice_site : forall s1 s2 (bs : bytes) a b, (a <= b)%nat -> (b <= length bs)%nat ->
  slice (E:=error) s1 bs a b = slice s2 bs a b.
Proof. intros. rewrite !slice_ok by assumption. reflexivity. Qed.

Lemma km_values_loop : forall (bs : bytes) (he : N) ts ss es acc,
  fold_res (fun (rt : msg) (x_it : tag * (N * N)) =>
      let '(tg, (vs, ve)) := x_it in
      obind (if (lenN bs <? he + ve) || (he + ve <? he + vs)
             then Err (InvalidValueLength tg (as_u32 (he + ve))) else Ok tt) (fun _ =>
      obind (slice_n site_gen bs (he + vs) (he + ve)) (fun s =>
      obind (add_field rt tg s) (fun rt' => Ok rt'))))
    (combine ts (combine ss es)) acc
  = read_values bs (N.to_nat he) ts (map N.to_nat ss) (map N.to_nat es) acc.
Proof.
  intros bs he ts. induction ts as [|t ts IH]; intros ss es acc.
  - reflexivity.
  - destruct ss as [|s ss]; [reflexivity|]. destruct es as [|e es]; [reflexivity|].
    cbn [combine fold_res map read_values].
    replace ((lenN bs <? he + e) || (he + e <? he + s))
      with ((length bs <? N.to_nat he + N.to_nat e)%nat || (N.to_nat he + N.to_nat e <? N.to_nat he + N.to_nat s)%nat)
      by (unfold lenN; lia).
    destruct ((length bs <? N.to_nat he + N.to_nat e)%nat || (N.to_nat he + N.to_nat e <? N.to_nat he + N.to_nat s)%nat) eqn:E.
    + cbn [obind]. replace (N.of_nat (N.to_nat he + N.to_nat e)) with (he + e) by lia. reflexivity.
    + cbn [obind]. unfold slice_n.
      replace (N.to_nat (he + s)) with (N.to_nat he + N.to_nat s)%nat by lia.
      replace (N.to_nat (he + e)) with (N.to_nat he + N.to_nat e)%nat by lia.
      rewrite (km_slice_site site_gen site_slice_value) by lia.
      destruct (slice site_slice_value bs _ _) as [v| |]; cbn [obind]; try reflexivity.
      destruct (add_field acc t v) as [acc'| |]; cbn [obind]; try reflexivity.
      apply IH.
Qed.

Lemma km_range_length : forall a b, length (range_n a b) = N.to_nat (b - a).
Proof. intros. unfold range_n. rewrite map_length, seq_length. reflexivity. Qed.

Lemma gen_multi_tag_model : forall num_tags bs, 2 <= num_tags ->
  gen_multi_tag_message num_tags bs (bs, 4) = multi_tag_message num_tags bs.
Proof.
  intros num_tags bs Hn. unfold gen_multi_tag_message, multi_tag_message, sub_chk.
  replace (num_tags <? 1) with false by lia. cbn [obind]. cbv zeta.
  rewrite km_offsets_loop. rewrite km_range_length.
  replace (N.to_nat (num_tags - 1 - 0)) with (N.to_nat num_tags - 1)%nat by lia.
  change (cur_rest (bs, 4)) with (skipn 4 bs).
  pose proof (read_offsets_spec (N.to_nat num_tags - 1) (skipn 4 bs) (as_u32 (lenN bs))) as Ho.
  destruct (read_offsets (N.to_nat num_tags - 1) (skipn 4 bs) (as_u32 (lenN bs))) as [[offs cur1]| |];
    cbn [obind]; [|reflexivity|reflexivity].
  destruct Ho as ((Hlo & _ & _) & _ & Hcur1). cbn [app].
  (* the tags loop *)
  match goal with |- obind ?X ?K = _ =>
    transitivity (obind (omap (fun '(_, m, ts) => (m, ts)) X) (fun '(m, ts) => K (repeat_byte x00 4, m, ts)))
  end.
  { match goal with |- obind ?X _ = _ => destruct X as [[[b m] ts]| |]; reflexivity end. }
  rewrite km_tags_loop. rewrite km_range_length.
  replace (N.to_nat (num_tags - 0)) with (N.to_nat num_tags) by lia.
  replace (cur_rest (bs, 4 + 4 * N.of_nat (N.to_nat num_tags - 1))) with cur1.
  2:{ rewrite km_rest_adv. change (cur_rest (bs, 4)) with (skipn 4 bs). rewrite Hcur1. f_equal. lia. }
  change (last_opt (@nil tag)) with (@None tag).
  pose proof (read_tags_spec (N.to_nat num_tags) cur1 None) as Ht.
  destruct (read_tags (N.to_nat num_tags) cur1 None) as [[tags cur2]| |]; cbn [obind]; [|reflexivity|reflexivity].
  destruct Ht as ((Hlt & _ & _) & Hcur2). cbn [app snd].
  assert (Hlen1 : length cur1 = (length bs - 4 - 4 * (N.to_nat num_tags - 1))%nat).
  { rewrite Hcur1, !skipn_length. lia. }
  assert (Hlen2 : length cur2 = (length cur1 - 4 * N.to_nat num_tags)%nat).
  { rewrite Hcur2, skipn_length. reflexivity. }
  rewrite skipn_length in Hlo.
  set (he := 4 + 4 * N.of_nat (N.to_nat num_tags - 1) + 4 * N.of_nat (N.to_nat num_tags)).
  assert (Hhe : N.to_nat he = (length bs - length cur2)%nat) by (subst he; lia).
  replace (lenN bs <? he) with false by (unfold lenN; lia). cbn [obind].
  rewrite km_values_loop. rewrite Hhe. cbn [map]. rewrite map_app. cbn [map].
  change (N.to_nat 0) with 0%nat.
  replace (N.to_nat (lenN bs - he)) with (length bs - (length bs - length cur2))%nat by (unfold lenN; lia).
  destruct (read_values bs _ tags _ _ []); reflexivity.
Qed.

Lemma gen_single_tag_model : forall bs,
  gen_single_tag_message bs (bs, 4) = single_tag_message bs.
Proof.
  intros bs. unfold gen_single_tag_message, single_tag_message. cbn [fst snd].
  replace (lenN bs <? 8) with (length bs <? 8)%nat by (unfold lenN; lia).
  destruct (length bs <? 8)%nat eqn:E; [reflexivity|]. cbn [obind]. cbv zeta.
  change (4 + 4) with 8. unfold slice_n. change (N.to_nat 4) with 4%nat. change (N.to_nat 8) with 8%nat.
  rewrite (km_slice_site site_gen site_slice_tag) by lia.
  destruct (slice site_slice_tag bs 4 8) as [tw| |]; cbn [obind]; try reflexivity.
  unfold tag_from_wire_r. destruct (tag_of_wire tw) as [t|]; cbn [obind]; [|reflexivity].
  unfold cur_read_to_end, cur_rest. cbn [fst snd app]. change (N.to_nat 8) with 8%nat.
  destruct (add_field [] t (skipn 8 bs)); reflexivity.
Qed.

(* RtMessage::from_bytes as translated is the model's from_bytes, for every byte string *)
Theorem gen_from_bytes_model : forall bs, gen_from_bytes bs = from_bytes bs.
Proof.
  intros bs. unfold gen_from_bytes, from_bytes. cbv zeta.
  replace (lenN bs <? 4) with (length bs <? 4)%nat by (unfold lenN; lia).
  destruct (length bs <? 4)%nat eqn:E4; [reflexivity|].
  destruct (negb (lenN bs mod 4 =? 0)); [reflexivity|]. cbn [obind].
  unfold cur_read_u32, cur_new. change (cur_rest (bs, 0)) with bs. rewrite E4. cbn [obind fst snd].
  change (0 + 4) with 4.
  destruct (rd32 bs =? 0) eqn:E0; [reflexivity|].
  destruct (rd32 bs =? 1) eqn:E1; [apply gen_single_tag_model|].
  destruct (2 <=? rd32 bs) eqn:E2; cbn [andb].
  - destruct (rd32 bs <=? 1024); [apply gen_multi_tag_model; lia | reflexivity].
  - (* rd32 bs is neither 0 nor 1, so it is at least 2 *)
    destruct (rd32 bs <=? 1024) eqn:E3; [|reflexivity].
    exfalso. lia.
Qed.

(* ------------------------------------------------------------------ corollaries used by Properties/ *)
Lemma gen_encoder_model : forall tags values, length tags = length values ->
    gen_encode tags values = encode (combine tags values)
    /\ gen_encode_framed tags values = encode_framed (combine tags values)
    /\ gen_encoded_size tags values = Ok (N.of_nat (encoded_size (combine tags values))).
Proof.
  intros tags values Hl. split; [|split].
  - exact (gen_encode_model tags values Hl).
  - exact (gen_encode_framed_model tags values Hl).
  - exact (gen_encoded_size_model tags values Hl).
Qed.

Lemma gen_fields_model : forall tags values t v, length tags = length values ->
    gen_add_field tags values t v = omap unzip (add_field (combine tags values) t v)
    /\ gen_get_field tags values t = Ok (get_field (combine tags values) t).
Proof.
  intros tags values t v Hl. split.
  - exact (gen_add_field_model tags values t v Hl).
  - exact (gen_get_field_model tags values t Hl).
Qed.

Lemma gen_canonical : forall bs tags values, lenN bs < two32 -> length tags = length values ->
    gen_from_bytes bs = Ok (combine tags values) -> combine tags values <> [] ->
    gen_encode tags values = Ok bs.
Proof.
  intros bs tags values Hb Hl Hd Hne.
  rewrite (gen_encode_model tags values Hl). rewrite gen_from_bytes_model in Hd.
  exact (canonical bs _ Hb Hd Hne).
Qed.

Lemma gen_decoder_total : forall bs, is_panic (gen_from_bytes bs) = false.
Proof. intros bs. rewrite gen_from_bytes_model. exact (decode_total bs). Qed.

Lemma gen_values_are_payload : forall bs m, gen_from_bytes bs = Ok m -> m <> [] ->
  concat (map snd m) = skipn (8 * length m) bs.
Proof. intros bs m H. rewrite gen_from_bytes_model in H. exact (values_are_payload bs m H). Qed.

(* ------------------------------------------------------------------ to_string (Display) *)

Lemma km_repeat_space : forall b n, repeat_bytes_nat [b] n = repeat_byte b n.
Proof. induction n as [|n IH]; [reflexivity|]. cbn [repeat_bytes_nat repeat_byte app]. rewrite IH. reflexivity. Qed.

Lemma gen_to_string_model : forall fuel tags values indent, length tags = length values -> 1 <= indent ->
  gen_to_string fuel tags values indent = to_string_f fuel (N.to_nat indent) (combine tags values).
Proof.
  induction fuel as [|f IH]; intros tags values indent Hl Hi; [reflexivity|].
  cbn [gen_to_string to_string_f].
  replace (0 <? indent) with true by lia. replace (N.to_nat indent =? 0)%nat with false by lia.
  unfold sub_chk. replace (indent <? 1) with false by lia. cbn [obind]. cbv zeta.
  unfold repeat_bytes, spaces. rewrite !km_repeat_space.
  replace (N.to_nat (2 * (indent - 1))) with (2 * (N.to_nat indent - 1))%nat by lia.
  replace (N.to_nat (2 * indent)) with (2 * N.to_nat indent)%nat by lia.
  set (m := combine tags values).
  replace (indent <? 8) with (N.to_nat indent <? MAX_DISPLAY_DEPTH)%nat by (unfold MAX_DISPLAY_DEPTH; lia).
  match goal with |- obind (fold_res ?F m ?a) ?K = obind (?fields m) ?K' =>
    assert (Hfold : forall l acc, fold_res F l acc = obind (fields l) (fun b => Ok (acc ++ b)))
  end.
  { induction l as [|[t v] l IHl]; intros acc.
    - cbn [fold_res obind]. rewrite app_nil_r. reflexivity.
    - cbn [fold_res].
      destruct (tag_nested t && (N.to_nat indent <? MAX_DISPLAY_DEPTH)%nat); cbn [obind].
      + destruct (ok_opt (from_bytes v)) as [nm|]; cbn [obind].
        * rewrite IH by (rewrite ?map_length; lia || reflexivity).
          rewrite RV.Proofs.EncFacts.enc_combine_fst_snd.
          replace (N.to_nat (indent + 1)) with (S (N.to_nat indent)) by lia.
          destruct (to_string_f f (S (N.to_nat indent)) nm) as [s| |]; cbn [obind]; try reflexivity.
          rewrite IHl. destruct (_ l) as [b| |]; cbn [obind]; try reflexivity.
          unfold str_eq. rewrite <- !app_assoc. reflexivity.
        * rewrite IHl. destruct (_ l) as [b| |]; cbn [obind]; try reflexivity.
          unfold str_eq. rewrite <- !app_assoc. reflexivity.
      + rewrite IHl. destruct (_ l) as [b| |]; cbn [obind]; try reflexivity.
        unfold str_eq. rewrite <- !app_assoc. reflexivity. }
  rewrite Hfold. match goal with |- obind (obind (?fields m) _) _ = _ => destruct (fields m) as [b| |] end;
    cbn [obind]; try reflexivity.
  unfold str_RtMessage, str_open, str_close, lenN. subst m. rewrite km_combine_length by exact Hl.
  rewrite <- !app_assoc. reflexivity.
Qed.

(* Display: to_string(1) with the model's 9 levels of fuel *)
Lemma gen_display_model : forall tags values, length tags = length values ->
  gen_to_string (S MAX_DISPLAY_DEPTH) tags values 1 = to_string (combine tags values).
Proof. intros. unfold to_string. rewrite gen_to_string_model by (assumption || lia). reflexivity. Qed.

Lemma gen_display_total : forall tags values, length tags = length values ->
  exists s, gen_to_string (S MAX_DISPLAY_DEPTH) tags values 1 = Ok s.
Proof. intros tags values Hl. rewrite gen_display_model by exact Hl. apply display_total. Qed.
