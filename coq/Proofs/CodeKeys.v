(* CodeKeys.v — OnlineKey::{classic_midp, rfc_midp, make_dele, make_srep}, LongTermKey::make_cert and
   Responder::make_response as translated from the source on this run, against Model/Keys.v and
   Model/Server.v. "Equal" is up to the number of the panic site: same value, or both fail. *)
Require Import RV.Model.Bytes RV.Gen.Tables RV.Model.Tag RV.Model.Message RV.Model.Merkle RV.Model.Request
        RV.Model.Keys RV.Model.Server RV.Model.GenSupport RV.Gen.Code.
From Coq Require Import ZArith Lia List.
Import ListNotations.
Local Open Scope N_scope.

Lemma gen_classic_midp_model : forall ok now, gen_classic_midp ok now = Ok (classic_midp now).
Proof. intros ok [secs nanos]. reflexivity. Qed.

Lemma gen_rfc_midp_model : forall ok now, gen_rfc_midp ok now = Ok (rfc_midp now).
Proof. reflexivity. Qed.

(* destruct the next message-building step that both sides share *)
Ltac chain :=
  repeat (cbn [obind ok_opt unwrap unwrap_p build_unwrap get_unwrap];
          match goal with
          | |- context [add_field ?m ?t ?v] => destruct (add_field m t v) as [?mm|?ee|?ss]
          | |- context [encode ?m] => destruct (encode m) as [?bb|?ee|?ss]
          | |- context [match get_field ?m ?t with _ => _ end] => destruct (get_field m t) as [?xx|]
          end);
  cbn [obind ok_opt unwrap unwrap_p build_unwrap get_unwrap]; try reflexivity.

Lemma gen_make_dele_model : forall ed_pk ok,
  ok_opt (gen_make_dele ed_pk ok) = ok_opt (make_dele ed_pk ok).
Proof. intros. unfold gen_make_dele, make_dele. cbv zeta. chain. Qed.

Lemma gen_make_srep_model : forall ed_sign ok v now root,
  ok_opt (gen_make_srep ed_sign ok v now root) = ok_opt (make_srep ed_sign v ok now root).
Proof.
  intros ed_sign ok v now root. unfold gen_make_srep, make_srep, srep_value. cbv zeta.
  destruct v; rewrite ?gen_classic_midp_model, ?gen_rfc_midp_model; cbn [obind midp_of radi_of];
    [ change (as_u32 5000000) with 5000000 | change (as_u32 5) with 5 ]; chain.
Qed.

Lemma gen_make_cert_model : forall ed_pk ed_sign lt v ok,
  ok_opt (gen_make_cert ed_pk ed_sign lt v ok) = ok_opt (make_cert ed_pk ed_sign v lt ok).
Proof.
  intros ed_pk ed_sign lt v ok. unfold gen_make_cert, make_cert, gen_make_dele, make_dele. cbv zeta. chain.
Qed.

Lemma gen_make_response_model : forall srep cert_bytes path idx nonce,
  ok_opt (gen_make_response tt srep cert_bytes path idx nonce)
  = ok_opt (make_response srep cert_bytes path idx nonce).
Proof.
  intros. unfold gen_make_response, make_response, get_unwrap. cbv zeta. chain.
Qed.
