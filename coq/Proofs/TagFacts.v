(* TagFacts.v — finite facts about the regenerated tag table (re-proved against today's table) *)
Require Import RV.Model.Bytes RV.Gen.Tables RV.Model.Tag RV.Spec.RefCodec.
From Coq Require Import Lia.
Local Open Scope N_scope.

Lemma all_tags_complete : forall t, In t all_tags.
Proof. destruct t; vm_compute; tauto. Qed.

Lemma all_tags_nodup : NoDup all_tags.
Proof.
  assert (H : forall l, (fix nd (l : list tag) : bool :=
            match l with [] => true | a :: r => negb (existsb (tag_beq a) r) && nd r end) l = true
            -> NoDup l).
  { induction l as [|a r IH]; intros Hnd; [constructor|].
    apply andb_true_iff in Hnd. destruct Hnd as [Ha Hr]. constructor; [|auto].
    intro Hin. apply negb_true_iff in Ha.
    assert (existsb (tag_beq a) r = true) as He.
    { apply existsb_exists. exists a. split; [assumption|]. destruct a; reflexivity. }
    congruence. }
  apply H. vm_compute. reflexivity.
Qed.

Lemma tag_wire_length : forall t, length (tag_wire t) = 4%nat.
Proof. destruct t; reflexivity. Qed.

(* the derived PartialOrd (declaration order) is the numeric order of the wire words *)
Lemma tag_lt_numeric : forall a b, tag_lt a b = (tag_num a <? tag_num b).
Proof. destruct a, b; vm_compute; reflexivity. Qed.

Lemma tag_le_numeric : forall a b, tag_le a b = (tag_num a <=? tag_num b).
Proof. destruct a, b; vm_compute; reflexivity. Qed.

Lemma tag_rank_numeric : forall a b, (tag_rank a <? tag_rank b) = (tag_num a <? tag_num b).
Proof. destruct a, b; vm_compute; reflexivity. Qed.

Lemma tag_num_inj : forall a b, tag_num a = tag_num b -> a = b.
Proof. destruct a, b; vm_compute; intro H; try reflexivity; discriminate H. Qed.

Lemma tag_of_wire_wire : forall t, tag_of_wire (tag_wire t) = Some t.
Proof. destruct t; vm_compute; reflexivity. Qed.

Lemma tag_from_wire_reflected : forall t, tag_from_wire_of_wire t = Some t.
Proof. destruct t; reflexivity. Qed.

Lemma tag_of_num_num : forall t, tag_of_num (tag_num t) = Some t.
Proof. destruct t; vm_compute; reflexivity. Qed.

Lemma tag_num_lt_2_32 : forall t, tag_num t < 4294967296.
Proof. destruct t; vm_compute; reflexivity. Qed.

Lemma tag_beq_eq : forall a b, tag_beq a b = true <-> a = b.
Proof. split; [apply internal_tag_dec_bl | apply internal_tag_dec_lb]. Qed.

(* context strings: the two delegation contexts differ, the response contexts are equal *)
Lemma dele_prefix_distinct : dele_prefix Google <> dele_prefix RfcDraft13.
Proof. vm_compute. discriminate. Qed.
