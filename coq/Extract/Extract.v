(* Extract.v — extraction of the executable model and specs to OCaml.
   Only ExtrOcamlBasic's own directives are used (bool, option, list, prod, unit, sumbool ->
   OCaml's); no Extract Constant / Extract Inductive of our own: N, positive, nat, byte stay
   inductive. *)
From Coq Require Import ExtrOcamlBasic.
Require Import RV.Model.Bytes RV.Gen.Tables RV.Model.Tag RV.Model.Message RV.Spec.RefCodec RV.Model.Sha512 RV.Model.Merkle RV.Spec.RefMerkle RV.Model.Request RV.Model.Keys RV.Model.Server RV.Spec.RefVerify RV.Model.Sign RV.Model.Stats RV.Model.Envelope RV.Model.Config RV.Model.ConfigLoad RV.Model.GenSupport RV.Model.LoadModel RV.Model.Client.
Extraction Language OCaml.
Extraction "Extract/model.ml"
  all_tags tag_wire tag_rank tag_nested tag_display
  from_bytes add_field get_field encode encode_framed encoded_size calculate_padding_length to_string
  ref_decode canon
  sha512 node_len tree_new batches root_from_paths chunks
  s_root s_path s_recompute
  classify srep_value make_srep make_cert make_dele ltk_srv_value ltk_public_key calc_srv_value
  server_new process_events grease responder_new responder_reset responder_add send_responses
  wellformed verify_response
  signer_from_seed run_signer messages run_verifier
  pc_new pc_run pc_total pc_total_bytes agg_run cs_get rep_receive q_run
  parse_blob decrypt_seed encrypt_seed
  effective is_valid_config file_load env_load parse_uint to_dec hex_decode
  make_request client_handle client_run exit_zero.
