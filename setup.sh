#!/bin/sh
# Build the whole framework from files on disk (offline): Rust harness against /repo, /repo's own
# binaries with the hook cfg, regenerated Coq tables, full .vo build, extracted OCaml driver.
set -e
cd "$(dirname "$0")"
export CARGO_NET_OFFLINE=true
python3 - <<'PY'
import sys
sys.path.insert(0, "py")
import vlib
vlib.build_harness()
vlib.build_repo_bins()
vlib.gen_tables()
ok, out = vlib.coq_make([])
print(out[-3000:])
if not ok:
    print("WARNING: full Coq build failed (individual checks will report it)")
vlib.build_driver()
print("setup done")
PY
