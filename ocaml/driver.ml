(* driver.ml — line-protocol driver around the extracted Coq model (Model) and specs.
   Symmetric to harness/src/main.rs: one output line per input line, same rendering. *)
open Model

(* ---------- conversions ---------- *)
let rec nat_of_int (i : int) : nat = if i <= 0 then O else S (nat_of_int (i - 1))
let nat_of_int i =
  (* tail-recursive version for large values *)
  let rec go acc i = if i <= 0 then acc else go (S acc) (i - 1) in
  ignore nat_of_int; go O i
let int_of_nat (n : nat) : int =
  let rec go acc = function O -> acc | S k -> go (acc + 1) k in go 0 n

let rec pos_of_int (i : int) : positive =
  if i = 1 then XH
  else if i land 1 = 0 then XO (pos_of_int (i lsr 1))
  else XI (pos_of_int (i lsr 1))
let n_of_int (i : int) : n = if i = 0 then N0 else Npos (pos_of_int i)
let rec int_of_pos = function
  | XH -> 1
  | XO p -> 2 * int_of_pos p
  | XI p -> 2 * int_of_pos p + 1
let int_of_n = function N0 -> 0 | Npos p -> int_of_pos p

(* arbitrary-size decimal rendering of an N (values may exceed 2^62) *)
let string_of_n (x : n) : string =
  (* digits via repeated division in Coq's N *)
  let ten = n_of_int 10 in
  let rec go acc x =
    if x = N0 then acc
    else
      let q = N.div x ten and r = N.modulo x ten in
      go (string_of_int (int_of_n r) ^ acc) q
  in
  if x = N0 then "0" else go "" x

let n_of_string (s : string) : n =
  let ten = n_of_int 10 in
  let acc = ref N0 in
  String.iter (fun c -> acc := N.add (N.mul !acc ten) (n_of_int (Char.code c - 48))) s;
  !acc

(* byte <-> int: Byte.byte's 256 constant constructors are represented as 0..255 in declaration
   order; checked against the extracted Byte.to_N / of_N in selftest *)
let byte_of_int (i : int) : byte = Obj.magic i
let int_of_byte (b : byte) : int = Obj.magic b

let hexval c =
  match c with
  | '0' .. '9' -> Char.code c - 48
  | 'a' .. 'f' -> Char.code c - 87
  | 'A' .. 'F' -> Char.code c - 55
  | _ -> failwith "bad hex"

let bytes_of_hex (s : string) : bytes =
  if s = "-" || s = "" then []
  else begin
    let n = String.length s / 2 in
    let r = ref [] in
    for i = n - 1 downto 0 do
      r := byte_of_int ((hexval s.[2 * i] lsl 4) lor hexval s.[2 * i + 1]) :: !r
    done;
    !r
  end

let hexchars = "0123456789abcdef"
let hex_of_bytes (b : bytes) : string =
  match b with
  | [] -> "-"
  | _ ->
    let buf = Buffer.create 64 in
    List.iter (fun x -> let i = int_of_byte x in
                Buffer.add_char buf hexchars.[i lsr 4];
                Buffer.add_char buf hexchars.[i land 15]) b;
    Buffer.contents buf

let string_of_bytes (b : bytes) : string =
  let buf = Buffer.create 64 in
  List.iter (fun x -> Buffer.add_char buf (Char.chr (int_of_byte x))) b;
  Buffer.contents buf

let bytes_of_string (s : string) : bytes =
  let r = ref [] in
  for i = String.length s - 1 downto 0 do r := byte_of_int (Char.code s.[i]) :: !r done;
  !r

(* FNV-1a 64 (same as the harness) *)
let fnv64_bytes (b : bytes) : string =
  let h = ref 0xcbf29ce484222325L in
  List.iter (fun x ->
      h := Int64.logxor !h (Int64.of_int (int_of_byte x));
      h := Int64.mul !h 0x100000001b3L) b;
  Printf.sprintf "%016Lx" !h

let blen (b : bytes) = List.length b

(* ---------- rendering ---------- *)
let tag_name (t : tag) : string =
  (* display name is not always the variant name (PAD); use the constructor index *)
  match t with
  | SIG -> "SIG" | VER -> "VER" | SRV -> "SRV" | NONC -> "NONC" | DELE -> "DELE"
  | PATH -> "PATH" | RADI -> "RADI" | PUBK -> "PUBK" | MIDP -> "MIDP" | SREP -> "SREP"
  | VERS -> "VERS" | MINT -> "MINT" | ROOT -> "ROOT" | CERT -> "CERT" | MAXT -> "MAXT"
  | INDX -> "INDX" | ZZZZ -> "ZZZZ" | PAD -> "PAD"

let tag_by_name (s : string) : tag =
  match List.find_opt (fun t -> tag_name t = s) all_tags with
  | Some t -> t
  | None -> failwith ("unknown tag " ^ s)

let render_val (v : bytes) : string =
  let l = blen v in
  if l > 64 then Printf.sprintf "%d:%s" l (fnv64_bytes v) else hex_of_bytes v

let render_msg (m : (tag * bytes) list) : string =
  "[" ^ String.concat "," (List.map (fun (t, v) -> tag_name t ^ ":" ^ render_val v) m) ^ "]"

let render_err (e : error) : string =
  match e with
  | TagNotStrictlyIncreasing t -> Printf.sprintf "TagNotStrictlyIncreasing(%s)" (tag_name t)
  | InvalidTag -> "InvalidTag"
  | InvalidNumTags n -> Printf.sprintf "InvalidNumTags(%s)" (string_of_n n)
  | InvalidValueLength (t, n) -> Printf.sprintf "InvalidValueLength(%s,%s)" (tag_name t) (string_of_n n)
  | EncodingFailure -> "EncodingFailure"
  | RequestTooShort -> "RequestTooShort"
  | RequestTooLarge -> "RequestTooLarge"
  | InvalidAlignment n -> Printf.sprintf "InvalidAlignment(%s)" (string_of_n n)
  | InvalidOffsetValue n -> Printf.sprintf "InvalidOffsetValue(%s)" (string_of_n n)
  | MessageTooShort -> "MessageTooShort"
  | InvalidRequest -> "InvalidRequest"
  | InvalidResponse -> "InvalidResponse"
  | LengthMismatch (a, b) -> Printf.sprintf "LengthMismatch(%s,%s)" (string_of_n a) (string_of_n b)
  | NoCompatibleVersion -> "NoCompatibleVersion"
  | SrvMismatch -> "SrvMismatch"

let render_out (f : 'a -> string) (o : (error, 'a) outcome) : string =
  match o with
  | Ok a -> "OK " ^ f a
  | Err e -> "ERR " ^ render_err e
  | Panic _ -> "PANIC"

let render_hash (b : bytes) = Printf.sprintf "%d:%s" (blen b) (fnv64_bytes b)

let split_on c s = String.split_on_char c s |> List.filter (fun x -> x <> "")

let parse_fields (arg : string) : (tag * bytes) list =
  List.map (fun f ->
      match String.index_opt f '=' with
      | Some i -> (tag_by_name (String.sub f 0 i),
                   bytes_of_hex (String.sub f (i + 1) (String.length f - i - 1)))
      | None -> failwith "bad field") (split_on ';' (String.trim arg))

(* ---------- commands ---------- *)
let cmd_fb ~(spec : bool) (arg : string) : string =
  let bs = bytes_of_hex (String.trim arg) in
  if spec then
    (* reference decoder: same D= rendering, error class collapsed *)
    match ref_decode bs with
    | Some m -> "D=OK " ^ render_msg m
    | None -> "D=REJECT"
  else
    match from_bytes bs with
    | Ok m ->
      let n = List.length m in
      let rec drop k l = if k = 0 then l else (match l with [] -> [] | _ :: r -> drop (k - 1) r) in
      let p = if n = 0 then "-"
        else if 8 * n <= List.length bs && List.concat (List.map snd m) = drop (8 * n) bs then "1" else "0" in
      Printf.sprintf "D=OK %s E=%s S=%s P=%s" (render_msg m)
        (render_out render_hash (encode m))
        (render_out render_hash (to_string m)) p
    | o -> Printf.sprintf "D=%s E=- S=- P=-" (render_out render_msg o)

let build_fields (fields : (tag * bytes) list) : (msg, int * error) result =
  let rec go i m = function
    | [] -> Result.Ok m
    | (t, v) :: r ->
      (match add_field m t v with
       | Ok m' -> go (i + 1) m' r
       | Err e -> Result.Error (i, e)
       | Panic _ -> failwith "add_field cannot panic")
  in go 0 [] fields

let cmd_build (arg : string) : string =
  match build_fields (parse_fields arg) with
  | Result.Error (i, e) -> Printf.sprintf "A=ERR@%d %s" i (render_err e)
  | Result.Ok m ->
    let size = int_of_nat (encoded_size m) in
    (match encode m with
     | Panic _ -> Printf.sprintf "A=OK Z=%d E=PANIC" size
     | Err e -> Printf.sprintf "A=OK Z=%d E=ERR %s" size (render_err e)
     | Ok enc ->
       Printf.sprintf "A=OK Z=%d E=OK %s F=%s R=%s" size (render_hash enc)
         (render_out render_hash (encode_framed m))
         (render_out render_msg (from_bytes enc)))

(* buildcont: the caller goes on after a refused add_field; the message is then what it was before *)
let cmd_buildcont (arg : string) : string =
  let fields = parse_fields arg in
  let rec go i m errs = function
    | [] -> (m, List.rev errs)
    | (t, v) :: r ->
      (match add_field m t v with
       | Ok m' -> go (i + 1) m' errs r
       | Err e -> go (i + 1) m (Printf.sprintf "%d:%s" i (render_err e) :: errs) r
       | Panic _ -> failwith "add_field cannot panic")
  in
  let (m, errs) = go 0 [] [] fields in
  let n = List.length m in
  let head = Printf.sprintf "A=%s N=%d T=%d V=%d" (if errs = [] then "-" else String.concat "," errs) n n n in
  let size = int_of_nat (encoded_size m) in
  (match encode m with
   | Panic _ -> Printf.sprintf "%s Z=%d E=PANIC" head size
   | Err e -> Printf.sprintf "%s Z=%d E=ERR %s" head size (render_err e)
   | Ok enc -> Printf.sprintf "%s Z=%d E=OK %s R=%s" head size (render_hash enc) (render_out render_msg (from_bytes enc)))

(* spec side of build: canon and ref_decode (canon m) *)
let cmd_build_spec (arg : string) : string =
  let fields = parse_fields arg in
  let enc = canon fields in
  Printf.sprintf "C=%s R=%s" (render_hash enc)
    (match ref_decode enc with Some m -> "OK " ^ render_msg m | None -> "REJECT")

let cmd_padlen (arg : string) : string =
  match build_fields (parse_fields arg) with
  | Result.Error (_, e) -> "ERR " ^ render_err e
  | Result.Ok m -> Printf.sprintf "OK %d" (int_of_nat (calculate_padding_length m))

(* ---------- Merkle ---------- *)
let version_of (s : string) : version =
  match s with
  | "Google" | "0" -> Google
  | "RfcDraft13" | "13" -> RfcDraft13
  | _ -> failwith "bad version"

let render_mres (f : 'a -> string) (o : (unit, 'a) outcome) : string =
  match o with Ok a -> f a | Err () -> "ERR" | Panic _ -> "PANIC"

let parse_batches (s : string) : bytes list list =
  List.map (fun b -> List.map bytes_of_hex (split_on ',' b)) (String.split_on_char '|' s)

let cmd_merkle (arg : string) : string =
  let arg = String.trim arg in
  let i = String.index arg ' ' in
  let ver = version_of (String.sub arg 0 i) in
  let batches = parse_batches (String.sub arg (i + 1) (String.length arg - i - 1)) in
  render_mres (fun outs ->
      String.concat " | " (List.map (fun (root, ps) ->
          Printf.sprintf "R=%s P=%s" (hex_of_bytes root)
            (String.concat "," (List.map render_hash ps))) outs))
    (Model.batches sha512 (tree_new ver) batches)

(* spec side: functional tree; also checks recomputation of every position *)
(* memoised digest for the spec side: the functional definitions recompute the whole tree for
   every path, which is fine mathematically and quadratic operationally *)
let sha_memo : (string, bytes) Hashtbl.t = Hashtbl.create 4096
let sha512_memo (x : bytes) : bytes =
  let k = string_of_bytes x in
  match Hashtbl.find_opt sha_memo k with
  | Some r -> r
  | None ->
    if Hashtbl.length sha_memo > 200000 then Hashtbl.reset sha_memo;
    let r = sha512 x in Hashtbl.add sha_memo k r; r

let cmd_merkle_spec (arg : string) : string =
  let arg = String.trim arg in
  let i = String.index arg ' ' in
  let ver = version_of (String.sub arg 0 i) in
  let w = node_len ver in
  let h x = firstn w (sha512_memo x) in
  let batches = parse_batches (String.sub arg (i + 1) (String.length arg - i - 1)) in
  String.concat " | " (List.map (fun leaves ->
      let root = s_root h w leaves in
      let n = List.length leaves in
      let ok = ref true in
      let ps = List.mapi (fun i d ->
          let p = s_path h w leaves (nat_of_int i) in
          if s_recompute h d (nat_of_int i) p <> root then ok := false;
          render_hash (List.concat p)) leaves in
      ignore n;
      Printf.sprintf "R=%s P=%s C=%d" (hex_of_bytes root) (String.concat "," ps) (if !ok then 1 else 0))
      batches)

let cmd_mroot ~(spec : bool) (arg : string) : string =
  match String.split_on_char ' ' (String.trim arg) with
  | [v; idx; leaf; path] ->
    let ver = version_of v in
    let leaf = bytes_of_hex leaf and path = bytes_of_hex path in
    if spec then begin
      let w = node_len ver in
      let h x = firstn w (sha512_memo x) in
      if List.length path mod (int_of_nat w) <> 0 then "REJECT"
      else "OK " ^ hex_of_bytes (s_recompute h leaf (nat_of_int (int_of_string idx)) (chunks w path))
    end else
      render_mres (fun r -> "OK " ^ hex_of_bytes r)
        (root_from_paths sha512 ver (n_of_string idx) leaf path)
  | _ -> failwith "mroot args"

(* ---------- request / keys / server ---------- *)
let version_name = function Google -> "Google" | RfcDraft13 -> "RfcDraft13"

let cmd_classify (arg : string) : string =
  match String.split_on_char ' ' (String.trim arg) with
  | srv :: rest ->
    let d = bytes_of_hex (match rest with [] -> "-" | x :: _ -> x) in
    render_out (fun (n, v) -> hex_of_bytes n ^ " " ^ version_name v) (classify (bytes_of_hex srv) d)
  | [] -> failwith "classify args"

(* Ed25519 stand-ins for RUNNING the model: the comparison masks every signature / public key
   field, only lengths matter (32 / 64 bytes) *)
let dummy_pk (seed : bytes) : bytes = firstn (nat_of_int 32) (sha512 (bytes_of_string "pk" @ seed))
let dummy_sign (seed : bytes) (m : bytes) : bytes = sha512 (seed @ m)

let cmd_srep (arg : string) : string =
  match String.split_on_char ' ' (String.trim arg) with
  | [v; secs; nanos; root] ->
    let ver = version_of v in
    (match make_srep dummy_sign ver (bytes_of_string "online") (n_of_string secs, n_of_string nanos) (bytes_of_hex root) with
     | Ok m ->
       let srep = match get_field m SREP with Some x -> x | None -> [] in
       Printf.sprintf "OK SREP=%s NF=%d SIGOK=1" (hex_of_bytes srep) (List.length m)
     | Err e -> "ERR " ^ render_err e
     | Panic _ -> "PANIC")
  | _ -> failwith "srep args"

let cmd_wfspec (arg : string) : string =
  match String.split_on_char ' ' (String.trim arg) with
  | srv :: rest ->
    let d = bytes_of_hex (match rest with [] -> "-" | x :: _ -> x) in
    (match wellformed (bytes_of_hex srv) d with
     | Some (n, v) -> "OK " ^ hex_of_bytes n ^ " " ^ version_name v
     | None -> "REJECT")
  | [] -> failwith "wfspec args"

(* spec verifier, first pass: signature queries are recorded and assumed to hold; the
   orchestrator then has each query answered by the Ed25519 oracle. Exact because the verdict
   is a conjunction in which the signature checks occur positively. *)
let cmd_vresp (arg : string) : string =
  match String.split_on_char ' ' (String.trim arg) with
  | [v; pk; req; reply] ->
    let queries = ref [] in
    let edv pk m sg = queries := (pk, m, sg) :: !queries; true in
    let ok = verify_response sha512_memo edv (version_of v) (bytes_of_hex pk) (bytes_of_hex req) (bytes_of_hex reply) in
    Printf.sprintf "V=%d Q=%s" (if ok then 1 else 0)
      (String.concat ";" (List.rev_map (fun (a, b, c) ->
           hex_of_bytes a ^ "," ^ hex_of_bytes b ^ "," ^ hex_of_bytes c) !queries))
  | _ -> failwith "vresp args"

(* ---------- sign.rs ---------- *)
(* signer <seed> <ops>: the model returns which byte strings get signed (Ed25519 itself is an
   oracle: the orchestrator signs these with one-shot dalek and with the RFC 8032 transcription) *)
let cmd_signer (arg : string) : string =
  let arg = String.trim arg in
  let seed, ops =
    match String.index_opt arg ' ' with
    | Some i -> (String.sub arg 0 i, String.sub arg (i + 1) (String.length arg - i - 1))
    | None -> (arg, "") in
  let ops = List.map (fun o -> if o = "s" then Sig else Upd (bytes_of_hex (String.sub o 2 (String.length o - 2))))
      (split_on ',' ops) in
  match signer_from_seed (bytes_of_hex seed) with
  | Ok s ->
    (* sign = identity on the message: run_signer then returns the messages themselves *)
    let sigs = run_signer (fun _ m -> m) s ops in
    "M=" ^ String.concat "," (List.map hex_of_bytes sigs)
  | _ -> "PANIC"

(* verify <pk> <chunks> <sig> <point 0|1> <verdict 0|1>: oracle answers supplied *)
let cmd_verify (arg : string) : string =
  match String.split_on_char ' ' (String.trim arg) with
  | [pk; chunks; sg; pt; vd] ->
    let chunks = List.map bytes_of_hex (String.split_on_char ',' chunks) in
    (match run_verifier (fun _ _ _ -> vd = "1") (fun _ -> pt = "1") (bytes_of_hex pk) chunks (bytes_of_hex sg) with
     | Ok b -> if b then "OK 1" else "OK 0"
     | _ -> "PANIC")
  | _ -> failwith "verify args"

(* ---------- statistics ---------- *)
let parse_sop (op : string) : sev =
  let k = op.[0] in
  let rest = String.sub op 1 (String.length op - 1) in
  let a, n = match String.index_opt rest ':' with
    | Some i -> (String.sub rest 0 i, String.sub rest (i + 1) (String.length rest - i - 1))
    | None -> (rest, "0") in
  let a = n_of_string a and n = n_of_string n in
  match k with
  | 'i' -> SIetfRequest a | 'c' -> SClassicRequest a | 'x' -> SInvalidRequest a | 'h' -> SHealthCheck a
  | 'r' -> SRfcResponse (a, n) | 'k' -> SClassicResponse (a, n) | 'f' -> SFailedSend a | 't' -> SRetriedSend a
  | _ -> failwith "bad op"

let render_cs (c : cstats) : string =
  String.concat "/" (List.map string_of_n [c.c_rfc_req; c.c_classic_req; c.c_invalid; c.c_health;
                                           c.c_rfc_resp; c.c_classic_resp; c.c_bytes; c.c_failed; c.c_retried])

let render_cmap (m : (n * cstats) list) : string =
  let l = List.sort (fun (a, _) (b, _) -> compare (int_of_n a) (int_of_n b)) m in
  if l = [] then "-" else String.concat ";" (List.map (fun (a, c) -> string_of_n a ^ ":" ^ render_cs c) l)

let totals_of (get : kind -> n) (bytes : n) (uniq : int) : string =
  let g k = string_of_n (get k) in
  Printf.sprintf "T=%s,%s,%s,%s,%s,%s,%s,%s,%s V=%s R=%s U=%d"
    (g KRfcReq) (g KClassicReq) (g KInvalid) (g KHealth) (g KRfcResp) (g KClassicResp) (string_of_n bytes)
    (g KFailed) (g KRetried)
    (string_of_n (N.add (get KRfcReq) (get KClassicReq)))
    (string_of_n (N.add (get KRfcResp) (get KClassicResp))) uniq

let cmd_stats (arg : string) : string =
  match String.split_on_char ' ' (String.trim arg) with
  | kind :: limit :: rest ->
    let ops = List.map parse_sop (split_on ',' (String.concat " " rest)) in
    if kind = "pc" then begin
      let st, _ = pc_run (pc_new (nat_of_int (int_of_string limit))) ops in
      Printf.sprintf "%s O=%s C=%s"
        (totals_of (fun k -> pc_total k st) (pc_total_bytes st) (List.length st.pc_clients))
        (string_of_n st.pc_overflows) (render_cmap st.pc_clients)
    end else begin
      let c = agg_run ops in
      Printf.sprintf "%s O=0 C=-" (totals_of (fun k -> cs_get k c) c.c_bytes 0)
    end
  | _ -> failwith "stats args"

let cmd_merge (arg : string) : string =
  let arg = String.trim arg in
  let limit, segs =
    match String.index_opt arg ' ' with
    | Some i -> (String.sub arg 0 i, String.sub arg (i + 1) (String.length arg - i - 1))
    | None -> (arg, "") in
  let segs = List.map (fun s -> List.map parse_sop (split_on ',' s)) (String.split_on_char '|' segs) in
  let snaps = List.map (fun evs -> (fst (pc_run (pc_new (nat_of_int (int_of_string limit))) evs)).pc_clients) segs in
  "C=" ^ render_cmap (rep_receive [] snaps)

(* squeue <cap> <limit> <op>|<op>|...   op = D (reporter drains) or P:<ev,ev,...> (a worker's recorder with
   <limit>, its snapshot published with force_push when non-empty) *)
let cmd_squeue (arg : string) : string =
  match String.split_on_char ' ' (String.trim arg) with
  | [cap; limit; ops] ->
    let ops = List.map (fun o ->
        if o = "D" then QDrain
        else
          let evs = List.map parse_sop (split_on ',' (String.sub o 2 (String.length o - 2))) in
          QPush (fst (pc_run (pc_new (nat_of_int (int_of_string limit))) evs)).pc_clients)
        (split_on '|' ops) in
    let ((_, merged), lost) = q_run { sq_cap = nat_of_int (int_of_string cap); sq_items = [] } [] [] ops in
    Printf.sprintf "C=%s LOST=%d" (render_cmap merged) (List.length lost)
  | _ -> failwith "squeue args"

(* ---------- envelope ---------- *)
let render_kres (f : 'a -> string) (o : (kms_error, 'a) outcome) : string =
  match o with
  | Ok a -> "OK " ^ f a
  | Err InvalidData -> "ERR InvalidData"
  | Err OperationFailed -> "ERR OperationFailed"
  | Err (ProviderError _) -> "ERR OperationFailed"
  | Panic _ -> "PANIC"

let cmd_envparse (arg : string) : string =
  render_kres (fun ((w, n), c) -> hex_of_bytes w ^ " " ^ hex_of_bytes n ^ " " ^ hex_of_bytes c)
    (parse_blob (bytes_of_hex (String.trim arg)))

(* envdec <blob> <unwrap answer: OK:hex | ERR> <open answer: OK:hex | ERR> *)
let cmd_envdec (arg : string) : string =
  match String.split_on_char ' ' (String.trim arg) with
  | [blob; ua; oa] ->
    let ans s = if String.length s > 3 && String.sub s 0 3 = "OK:" then Some (bytes_of_hex (String.sub s 3 (String.length s - 3))) else None in
    let unwrap _ = match ans ua with Some k -> Ok k | None -> Err (ProviderError N0) in
    let opn _ _ _ _ = ans oa in
    render_kres hex_of_bytes (decrypt_seed opn unwrap (bytes_of_hex blob))
  | _ -> failwith "envdec args"

(* ltk <seed> <realpk>: SRV value from the model (public key supplied by the Ed25519 oracle) *)
let cmd_ltk (arg : string) : string =
  match String.split_on_char ' ' (String.trim arg) with
  | [seed; pk] ->
    let pkb = bytes_of_hex pk in
    Printf.sprintf "OK PK=%s SRV=%s" (hex_of_bytes (ltk_public_key (fun _ -> pkb) (bytes_of_hex seed)))
      (hex_of_bytes (ltk_srv_value sha512 (fun _ -> pkb) (bytes_of_hex seed)))
  | _ -> failwith "ltk args"

(* cert <seed> <vers>: structure of the certificates the model builds (signature bytes are oracle values) *)
let cmd_cert (arg : string) : string =
  match String.split_on_char ' ' (String.trim arg) with
  | [seed; vers] ->
    let outs = List.map (fun v ->
        match make_cert dummy_pk dummy_sign (version_of v) (bytes_of_hex seed) (bytes_of_string "online") with
        | Ok cert ->
          let dele = match get_field cert DELE with Some d -> d | None -> [] in
          (match from_bytes dele with
           | Ok dm ->
             let g t = match get_field dm t with Some x -> x | None -> [] in
             Printf.sprintf "NF=%d DELE=[MINT:%s,MAXT:%s,PUBKLEN:%d] OWN=1 OTHER=0" (List.length cert)
               (hex_of_bytes (g MINT)) (hex_of_bytes (g MAXT)) (List.length (g PUBK))
           | _ -> "BAD-DELE")
        | _ -> "PANIC") (String.split_on_char ',' vers) in
    "OK " ^ String.concat " | " outs
  | _ -> failwith "cert args"

(* ---------- config ---------- *)
let z_of_string (s : string) : z =
  if String.length s > 0 && s.[0] = '-' then
    (match n_of_string (String.sub s 1 (String.length s - 1)) with N0 -> Z0 | Npos p -> Zneg p)
  else (match n_of_string s with N0 -> Z0 | Npos p -> Zpos p)

let string_of_z (x : z) : string =
  match x with Z0 -> "0" | Zpos p -> string_of_n (Npos p) | Zneg p -> "-" ^ string_of_n (Npos p)

(* cfg <File|Env> <key> <z> *)
let cmd_cfg (arg : string) : string =
  match String.split_on_char ' ' (String.trim arg) with
  | [src; key; zs] ->
    let s = if src = "File" then File else Env in
    let k = match key with
      | "port" -> CPort | "batch_size" -> CBatch | "status_interval" -> CStatus
      | "health_check_port" -> CHealth | "fault_percentage" -> CFault | "num_workers" -> CWorkers
      | _ -> failwith "key" in
    (match effective s k (z_of_string zs) with
     | Running v -> "RUN " ^ string_of_z v
     | Refused -> "REFUSED")
  | _ -> failwith "cfg args"

(* cfgvalid <port> <iface_empty 0|1> <seedlen> <kms 0|1> <batch> <fault> <workers> <client_stats 0|1> <dir -|exists,isdir,readonly> <addr_parses 0|1> *)
let cmd_cfgvalid (arg : string) : string =
  match String.split_on_char ' ' (String.trim arg) with
  | [port; ie; sl; kms; b; f; w; cs; dir; ap] ->
    let bo s = (s = "1") in
    let d = if dir = "-" then None else
        (match String.split_on_char ',' dir with
         | [e; i; r] -> Some { d_exists = bo e; d_is_dir = bo i; d_readonly = bo r }
         | _ -> failwith "dir") in
    let c = { s_port = z_of_string port; s_interface_empty = bo ie; s_seed_len = z_of_string sl;
              s_kms = (if kms = "1" then KmsEnabled else KmsPlaintext); s_batch = z_of_string b;
              s_fault = z_of_string f; s_workers = z_of_string w; s_client_stats = bo cs; s_pdir = d;
              s_addr_parses = bo ap } in
    (match is_valid_config c with
     | VOk true -> "VALID" | VOk false -> "INVALID" | VPanic -> "PANIC")
  | _ -> failwith "cfgvalid args"

(* ---------- the configuration loaders at the level of the text (Model/LoadModel.v) ---------- *)
let render_lcfg (r : (cfg_error, lcfg) outcome) : string =
  match r with
  | Ok c ->
    let kms = match c.lc_kms with
      | KPlaintext -> "P" | KAws s -> "A:" ^ hex_of_bytes s | KGcp s -> "G:" ^ hex_of_bytes s in
    Printf.sprintf "OK port=%s iface=%s seed=%s batch=%s status=%s kms=%s health=%s cs=%d fault=%s workers=%s pdir=%s"
      (string_of_z c.lc_port) (hex_of_bytes c.lc_interface) (hex_of_bytes c.lc_seed) (string_of_z c.lc_batch)
      (string_of_z c.lc_status) kms (match c.lc_health with Some h -> string_of_z h | None -> "-1")
      (if c.lc_cstats then 1 else 0) (string_of_z c.lc_fault) (string_of_z c.lc_workers)
      (match c.lc_pdir with Some p -> hex_of_bytes p | None -> "none")
  | Err InvalidConfiguration -> "ERR InvalidConfiguration"
  | Err NoneValue -> "ERR NoneValue"
  | Panic _ -> "PANIC"

let yval_of_string (s : string) : yval =
  if s = "" then YOther else
  match s.[0] with
  | 'i' -> YInt (z_of_string (String.sub s 1 (String.length s - 1)))
  | 's' -> YStr (bytes_of_hex (String.sub s 1 (String.length s - 1)))
  | _ -> YOther

(* fileload <cores> P | fileload <cores> <ndocs> <doc>...   doc = X | H:<k>=<v>,<k>=<v>... *)
let cmd_fileload (arg : string) : string =
  match String.split_on_char ' ' (String.trim arg) with
  | cores :: "P" :: _ -> render_lcfg (file_load (z_of_string cores) (Panic O))
  | cores :: _ :: docs ->
    let doc d =
      if d = "X" then DOther
      else begin
        let body = String.sub d 2 (String.length d - 2) in
        let es = if body = "" then [] else split_on ',' body in
        DHash (List.map (fun e -> let i = String.index e '=' in
                          (yval_of_string (String.sub e 0 i),
                           yval_of_string (String.sub e (i + 1) (String.length e - i - 1)))) es)
      end in
    render_lcfg (file_load (z_of_string cores) (Ok (List.map doc (List.filter (fun d -> d <> "") docs))))
  | _ -> failwith "fileload args"

(* envload <cores> <NAMEhex>=<VALUEhex>,...   ('-' for an empty environment) *)
let cmd_envload (arg : string) : string =
  match String.split_on_char ' ' (String.trim arg) with
  | [cores; vars] ->
    let tbl = if vars = "-" then [] else
        List.map (fun e -> let i = String.index e '=' in
                   (bytes_of_hex (String.sub e 0 i), bytes_of_hex (String.sub e (i + 1) (String.length e - i - 1))))
          (split_on ',' vars) in
    let env (n : bytes) = try Some (List.assoc n tbl) with Not_found -> None in
    render_lcfg (env_load (z_of_string cores) env)
  | _ -> failwith "envload args"

(* parseuint <max> <texthex> *)
let cmd_parseuint (arg : string) : string =
  match String.split_on_char ' ' (String.trim arg) with
  | [mx; t] -> (match parse_uint (z_of_string mx) (bytes_of_hex t) with Some z -> "OK " ^ string_of_z z | None -> "ERR")
  | _ -> failwith "parseuint args"

(* ---------- client ---------- *)
let parse_assoc (s : string) : (string * bool) list =
  if s = "-" then [] else
    List.map (fun kv -> let i = String.rindex kv ':' in
               (String.sub kv 0 i, String.sub kv (i + 1) (String.length kv - i - 1) = "1"))
      (split_on ',' s)

(* client <ver> <pk|-> <nonce> <request> <dgram> <points|-> <verifies|->
   first pass ('-' '-'): Ed25519 answers assumed true and the queries recorded;
   second pass: answers looked up (default false) *)
let cmd_client (arg : string) : string =
  match String.split_on_char ' ' (String.trim arg) with
  | [v; pk; nonce; request; dgram; points; verifies] ->
    let recording = (points = "-" && verifies = "-") in
    let pts = parse_assoc points and vfs = parse_assoc verifies in
    let queries = ref [] in
    let edp pkb = if recording then true else (try List.assoc (hex_of_bytes pkb) pts with Not_found -> false) in
    let edv pkb m sg =
      let key = hex_of_bytes pkb ^ "." ^ hex_of_bytes m ^ "." ^ hex_of_bytes sg in
      queries := key :: !queries;
      if recording then true else (try List.assoc key vfs with Not_found -> false) in
    let pko = if pk = "-" then None else Some (bytes_of_hex pk) in
    let r = client_handle sha512 edv edp (version_of v) pko (bytes_of_hex nonce) (bytes_of_hex request) (bytes_of_hex dgram) in
    let q = String.concat "," (List.rev !queries) in
    (match r with
     | Ok o -> Printf.sprintf "OK verified=%d secs=%s nsecs=%s radius=%s index=%s Q=%s" (if o.o_verified then 1 else 0)
                 (string_of_n o.o_secs) (string_of_n o.o_nsecs) (string_of_n o.o_radius) (string_of_n o.o_index) q
     | Err e -> "ERR " ^ render_err e ^ " Q=" ^ q
     | Panic n -> Printf.sprintf "PANIC site=%d Q=%s" (int_of_nat n) q)
  | _ -> failwith "client args"

(* clientrun <ver> <pk|-> <points|-> <verifies|-> <nonce:request:dgram|nonce:request:T>;...
   the whole -n run (Model/Client.v client_run); same two-pass oracle protocol as `client` *)
let cmd_clientrun (arg : string) : string =
  match String.split_on_char ' ' (String.trim arg) with
  | [v; pk; points; verifies; xs] ->
    let recording = (points = "-" && verifies = "-") in
    let pts = parse_assoc points and vfs = parse_assoc verifies in
    let queries = ref [] in
    let edp pkb = if recording then true else (try List.assoc (hex_of_bytes pkb) pts with Not_found -> false) in
    let edv pkb m sg =
      let key = hex_of_bytes pkb ^ "." ^ hex_of_bytes m ^ "." ^ hex_of_bytes sg in
      queries := key :: !queries;
      if recording then true else (try List.assoc key vfs with Not_found -> false) in
    let pko = if pk = "-" then None else Some (bytes_of_hex pk) in
    let exs = List.map (fun x ->
        match String.split_on_char ':' x with
        | [n; rq; d] -> { ex_nonce = bytes_of_hex n; ex_request = bytes_of_hex rq;
                          ex_arrival = (if d = "T" then TimedOut else Arrived (bytes_of_hex d)) }
        | _ -> failwith "clientrun exchange") (split_on ';' xs) in
    let (outs, e) = client_run sha512 edv edp (version_of v) pko exs in
    let q = String.concat "," (List.rev !queries) in
    let os = String.concat "|" (List.map (fun o ->
        Printf.sprintf "%d,%s,%s,%s,%s" (if o.o_verified then 1 else 0) (string_of_n o.o_secs)
          (string_of_n o.o_nsecs) (string_of_n o.o_radius) (string_of_n o.o_index)) outs) in
    let es = (match e with RunDone -> "done" | RunTimeout -> "timeout" | RunPanic n -> Printf.sprintf "panic%d" (int_of_nat n)) in
    Printf.sprintf "RUN end=%s exit0=%d outs=%s Q=%s" es (if exit_zero e then 1 else 0) os q
  | _ -> failwith "clientrun args"

(* mkreq <ver> <nonce> <pk|-> *)
let cmd_mkreq (arg : string) : string =
  match String.split_on_char ' ' (String.trim arg) with
  | [v; nonce; pk] ->
    let pko = if pk = "-" then None else Some (bytes_of_hex pk) in
    render_out hex_of_bytes (make_request sha512 (version_of v) (bytes_of_hex nonce) pko)
  | _ -> failwith "mkreq args"

let model_srv : server option ref = ref None

(* "sock:len" strings ordered by socket index (the harness drains its sockets in index order) *)
let compare_dest (a : string) (b : string) : int =
  let k s = int_of_string (String.sub s 0 (String.index s ':')) in
  compare (k a) (k b)

let stats_totals (evs : sev list) : string =
  let rfc = ref 0 and classic = ref 0 and invalid = ref 0 and health = ref 0 and failed = ref 0
  and retried = ref 0 and rfcresp = ref 0 and classicresp = ref 0 and bytes = ref 0 in
  List.iter (function
      | SIetfRequest _ -> incr rfc | SClassicRequest _ -> incr classic | SInvalidRequest _ -> incr invalid
      | SRfcResponse (_, n) -> incr rfcresp; bytes := !bytes + int_of_n n
      | SClassicResponse (_, n) -> incr classicresp; bytes := !bytes + int_of_n n
      | SFailedSend _ -> incr failed | SRetriedSend _ -> incr retried | SHealthCheck _ -> incr health) evs;
  Printf.sprintf "rfc=%d classic=%d invalid=%d health=%d failed=%d retried=%d rfcresp=%d classicresp=%d bytes=%d"
    !rfc !classic !invalid !health !failed !retried !rfcresp !classicresp !bytes

let cmd_serve (arg : string) : string =
  let arg = String.trim arg in
  let sub, rest =
    match String.index_opt arg ' ' with
    | Some i -> (String.sub arg 0 i, String.sub arg (i + 1) (String.length arg - i - 1))
    | None -> (arg, "") in
  match sub with
  | "new" ->
    (match String.split_on_char ' ' rest with
     | batch :: fault :: level :: _cs :: seed :: more ->
       (* the long-term public key is Ed25519(seed): supplied by the oracle (6th/7th argument) *)
       let real_pk = match more with _ :: pk :: _ -> Some (bytes_of_hex pk) | _ -> None in
       let lt = bytes_of_hex seed in
       let dummy_pk s = match real_pk with Some pk when s = lt -> pk | _ -> dummy_pk s in
       let cfg = { batch_size = nat_of_int (int_of_string batch); fault_pct = n_of_string fault;
                   log_level = nat_of_int (int_of_string level); send_fails = (fun _ -> false) } in
       (match server_new sha512 dummy_pk dummy_sign cfg (bytes_of_hex seed)
                (bytes_of_string "online-ietf") (bytes_of_string "online-classic") with
        | Ok s -> model_srv := Some s;
          Printf.sprintf "OK srv=%s" (hex_of_bytes s.s_srv_value)
        | _ -> "PANIC")
     | _ -> failwith "serve new args")
  | "run" ->
    (match !model_srv with
     | None -> "NO-SERVER"
     | Some s ->
       let dg =
         match String.index_opt rest ' ' with
         | Some i -> String.sub rest (i + 1) (String.length rest - i - 1)
         | None -> "" in
       let queue = List.map (fun x ->
           let i = String.index x ':' in
           (n_of_int (int_of_string (String.sub x 0 i)),
            bytes_of_hex (String.sub x (i + 1) (String.length x - i - 1)))) (split_on ';' dg) in
       (match process_events sha512 dummy_sign s queue (fun _ -> (N0, N0)) [] with
        | Ok (s', o) ->
          model_srv := Some s';
          Printf.sprintf "OK %s LOG=%d R=%s" (stats_totals o.so_stats) (List.length o.so_logs)
            (String.concat ";" (List.map (fun e ->
                 Printf.sprintf "%d:%s" (int_of_n e.em_dest) (hex_of_bytes e.em_bytes)) o.so_sent))
        | Err e -> "ERR " ^ render_err e
        | Panic n -> Printf.sprintf "PANIC site=%d" (int_of_nat n)))
  | "drop" -> model_srv := None; "OK"
  | _ -> "SKIP"

(* respond <ver> <seedhex> <nsock> <batch>|<batch>...   item = <dest>:<nonce>:<request|->
   destinations F and B are addresses the environment refuses to send to (send_fails) *)
let cmd_respond (arg : string) : string =
  match String.split_on_char ' ' (String.trim arg) with
  | [v; seed; _nsock; batches] ->
    let ver = version_of v in
    let addr_of d = match d with "F" -> 1000000 | "B" -> 1000001 | k -> int_of_string k in
    let cfg = { batch_size = nat_of_int 64; fault_pct = N0; log_level = nat_of_int 0;
                send_fails = (fun a -> int_of_n a >= 1000000) } in
    (match responder_new dummy_pk dummy_sign ver (bytes_of_hex seed) (bytes_of_string "online") with
     | Ok r0 ->
       let r = ref r0 and evs = ref [] and out = ref [] and failed = ref false in
       List.iter (fun batch ->
           if not !failed then begin
             r := responder_reset !r;
             List.iter (fun item ->
                 match String.split_on_char ':' item with
                 | [d; n; rq] ->
                   let nonce = bytes_of_hex n in
                   let leaf = if rq = "-" then nonce else bytes_of_hex rq in
                   (match responder_add sha512 !r leaf nonce (n_of_int (addr_of d)) with
                    | Ok r' -> r := r'
                    | _ -> failed := true)
                 | _ -> failwith "respond item") (split_on ';' batch);
             (match send_responses sha512 dummy_sign cfg !r (N0, N0) [] with
              | Ok (r', bo) ->
                r := r'; evs := !evs @ bo.bo_stats;
                let got = List.map (fun e -> Printf.sprintf "%d:%d" (int_of_n e.em_dest) (List.length e.em_bytes)) bo.bo_sent in
                let got = List.sort compare_dest got in
                out := Printf.sprintf "[%s R=%s]" (stats_totals !evs) (String.concat "," got) :: !out
              | _ -> failed := true)
           end) (String.split_on_char '|' batches);
       if !failed then "PANIC" else "OK " ^ String.concat " " (List.rev !out)
     | _ -> "PANIC")
  | _ -> failwith "respond args"

let dispatch (line : string) : string =
  let cmd, rest =
    match String.index_opt line ' ' with
    | Some i -> (String.sub line 0 i, String.sub line (i + 1) (String.length line - i - 1))
    | None -> (line, "")
  in
  match cmd with
  | "fb" -> cmd_fb ~spec:false rest
  | "fbspec" -> cmd_fb ~spec:true rest
  | "build" -> cmd_build rest
  | "buildspec" -> cmd_build_spec rest
  | "buildcont" -> cmd_buildcont rest
  | "padlen" -> cmd_padlen rest
  | "merkle" -> cmd_merkle rest
  | "classify" -> cmd_classify rest
  | "srep" -> cmd_srep rest
  | "squeue" -> cmd_squeue rest
  | "serve" -> cmd_serve rest
  | "respond" -> cmd_respond rest
  | "signer" -> cmd_signer rest
  | "cfgvalid" -> cmd_cfgvalid rest
  | "client" -> cmd_client rest
  | "clientrun" -> cmd_clientrun rest
  | "mkreq" -> cmd_mkreq rest
  | "cfg" -> cmd_cfg rest
  | "fileload" -> cmd_fileload rest
  | "envload" -> cmd_envload rest
  | "parseuint" -> cmd_parseuint rest
  | "ltk" -> cmd_ltk rest
  | "cert" -> cmd_cert rest
  | "stats" -> cmd_stats rest
  | "envparse" -> cmd_envparse rest
  | "envdec" -> cmd_envdec rest
  | "merge" -> cmd_merge rest
  | "verify" -> cmd_verify rest
  | "wfspec" -> cmd_wfspec rest
  | "vresp" -> cmd_vresp rest
  | "merklespec" -> cmd_merkle_spec rest
  | "mroot" -> cmd_mroot ~spec:false rest
  | "mrootspec" -> cmd_mroot ~spec:true rest
  | _ -> "UNKNOWN-CMD " ^ cmd

(* ---------- self test: extraction glue vs extracted definitions ---------- *)
let selftest () =
  for i = 0 to 255 do
    if int_of_n (to_N (byte_of_int i)) <> i then failwith "byte_of_int/to_N mismatch";
    (match of_N (n_of_int i) with
     | Some b -> if int_of_byte b <> i then failwith "of_N/int_of_byte mismatch"
     | None -> failwith "of_N None")
  done;
  if int_of_nat (nat_of_int 12345) <> 12345 then failwith "nat";
  if string_of_n (n_of_string "18446744073709551616") <> "18446744073709551616" then failwith "N";
  if hex_of_bytes (bytes_of_hex "00ff10ab") <> "00ff10ab" then failwith "hex";
  print_endline "SELFTEST-OK"

let () =
  match Array.to_list Sys.argv with
  | _ :: "selftest" :: _ -> selftest ()
  | _ :: "run" :: file :: _ ->
    let ic = open_in file in
    let oc = stdout in
    (try
       while true do
         let line = input_line ic in
         if line = "" || line.[0] = '#' then (output_string oc line; output_char oc '\n')
         else begin
           let r = try dispatch line with
             | Stack_overflow -> "DRIVER-STACK-OVERFLOW"
             | Failure m -> "DRIVER-FAIL " ^ m
             | Not_found -> "DRIVER-FAIL not_found" in
           output_string oc r; output_char oc '\n'
         end
       done
     with End_of_file -> ());
    flush oc
  | _ -> prerr_endline "usage: driver selftest | run <file>"; exit 2
