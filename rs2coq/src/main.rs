// rs2coq — a translator for a restricted subset of Rust into Gallina, run on every check.
//
//   rs2coq <repo root> <targets file> <output .v>
//
// It parses the named functions of /repo's CURRENT sources with `syn` and emits one Gallina
// definition per function, in the outcome monad of Model/Bytes.v (Ok / Err / Panic): control flow
// (sequencing, let, assignment to mutable locals, if / else if / else, if let, match with guards,
// early return, `?`, for-loops that return early) is translated structurally; the calls into the
// rest of the library (message decoding, slices, field access, configuration getters ...) are
// translated through the per-target table in the targets file, which is the stated contract
// between the translated function and the hand-written model of what it calls. Anything outside
// the subset, or an expression not in the table, is an error: the generated file is then not
// produced and the properties that depend on it report a broken tie.
use std::collections::HashMap;
use std::fmt::Write as _;

use quote::ToTokens;
use syn::{BinOp, Block, Expr, ExprMatch, Item, Lit, Pat, Stmt, UnOp};

fn norm(s: &str) -> String {
    s.chars().filter(|c| !c.is_whitespace()).collect()
}

fn toks<T: ToTokens>(t: &T) -> String {
    norm(&t.to_token_stream().to_string())
}

#[derive(Clone, Copy, PartialEq, Debug)]
enum Kind {
    Num,
    Bytes,
    Tag,
    Other,
}

#[derive(Default, Clone)]
struct Target {
    spec_text: String,   // all directive lines of this target (to find which generated definitions it relies on)
    raw: Option<String>, // a verbatim block of glue definitions emitted at this position
    file: String,
    func: String, // "name" or "Type::name"
    coq: String,
    params: Vec<(String, String, String)>, // rust name, coq name, coq type
    ret: String,                            // coq type of the value (inside res)
    retmode: String,                        // result | option | value | unit
    pure_map: Vec<(String, String, Kind)>,  // normalized rust expr -> coq term
    part_map: Vec<(String, String, Kind)>,  // normalized rust expr -> coq term of type res _
    method: HashMap<String, (String, Kind, bool)>, // "name/arity" -> template with $0 (receiver) $1.. ; partial?
    call: HashMap<String, (String, Kind, bool)>,   // "path/arity" -> template
    ctor: HashMap<String, String>,          // pattern / path text -> coq constructor
    consts: HashMap<String, (String, Kind)>,
    kinds: HashMap<String, Kind>,           // rust var -> kind
    skip_macros: Vec<String>,
    panic_site: String,
    scope: String,
    fields: HashMap<String, (String, Kind)>,      // struct field access  .name -> template with $0
    imaps: HashMap<String, String>,               // receiver text of `recv[&Tag::X]` -> coq msg term
    mutmethod: HashMap<String, String>,           // "name/arity" -> new value of the receiver variable
    extra_params: Vec<(String, String)>,          // Coq-only parameters (coq name, type)
    has_self: bool,
    pmutmethod: HashMap<String, String>,          // fallible mutating method: res of the receiver's new value
    smap: Vec<(String, Vec<String>, Vec<String>)>, // statement text -> (variables, new values)
    letmap: HashMap<String, (String, bool)>,      // let <var> = ...  overridden: (coq term, is res)
    wrap64: bool,
    rmutmethod: HashMap<String, String>,          // "name/arity" -> res (value * receiver's new value)
    condmut: Vec<(String, Vec<String>, String)>,  // condition text -> (variables, option (new values)); None = condition true
    retvars: Vec<String>,                         // retmode mutself: the function returns the final versions of these
    scrutmut: Vec<(String, Vec<String>, String)>, // match scrutinee text -> (variables, term : value * new values)
    condeff: Vec<(String, Vec<String>, String)>,  // if condition text -> (variables, term : bool * new values)
 retstate: Vec<String>,                        // the function also returns the final versions of these (after its value)
    leteff: Vec<(String, Vec<String>, String)>,   // let-initialiser text -> (variables, term : res (value * new values))
    psmap: Vec<(String, Vec<String>, String)>,    // statement text -> (variables, term : res (new values))
    loopfuel: Option<String>,                     // fuel of a `loop { .. break .. }` (term over the state at loop entry)
    restype: Option<String>,                      // the outcome type of the function (default `res`)
    recfuel: Option<String>,
    places: Vec<(String, String, String, String)>, // expression text that denotes a mutable place inside a variable: (text, variable, getter term, setter term with $v)
    stmtcount: usize,                             // with onlystmt: that statement and the following ones of its block, this many in all (default 1)
    onlystmt: Option<String>,                     // translate only the statement (anywhere in the body) whose text starts with this
    diverge: HashMap<String, String>,             // "path/arity" of a call that never returns (process::exit): the outcome it stands for
    placemethod: HashMap<String, String>,         // "name/arity" of a mutating method called on a place -> the place's new value ($0 current value)
    fldset: HashMap<String, String>,              // field name -> record update template ($0 record, $1 new value)
    unwrap_fn: String,                            // the function that turns an error value into a panic (default unwrap_p)
    explode: Vec<String>,                         // struct types whose literal, bound by `let`, becomes one variable per field                      // recursive function: Fixpoint on a fuel parameter; panic site when it runs out
}

struct Tr<'a> {
    t: &'a Target,
    fresh: usize,
    env: Vec<HashMap<String, (String, Kind)>>,
    loop_depth: usize,
    loop_sr: Vec<Vec<String>>, // enclosing state-and-return loops: their state variables
    loop_brk: Vec<Vec<String>>, // enclosing `loop`s: their state variables
    file: Option<&'a syn::File>,  // the source file of the target: private helpers it calls are inlined from here
    self_ty: Option<String>,      // the impl type of the target
    mode_override: Vec<String>,   // return mode of the helper being inlined
    inline_depth: usize,
    expect_ty: Option<String>,    // the type the expression being translated must have (let x: T = .. / x.f = ..): `$T` in templates
    exploded: HashMap<String, (String, Vec<String>)>, // let x = S { f: .. } of an exploded struct type: x -> (S, fields)
    ret_is_break: bool,           // inside a `loop` that is the last statement of a unit function: `return;` is `break`
    place_alias: HashMap<String, usize>,  // let x = <place expression>: x names that place
    field_types: HashMap<String, String>, // field name -> declared type, from the structs of the target's file
}

type R<T> = Result<T, String>;

// x.unwrap() / x.expect(..) / x.unwrap_or_else(|_| panic!(..)): an error value becomes a panic
fn is_unwrap(m: &syn::ExprMethodCall) -> bool {
    if m.method == "unwrap" || m.method == "expect" {
        return true;
    }
    if m.method == "unwrap_or_else" && m.args.len() == 1 {
        if let Expr::Closure(c) = &m.args[0] {
            let body = match &*c.body {
                Expr::Block(b) if b.block.stmts.len() == 1 => match &b.block.stmts[0] {
                    Stmt::Expr(e, _) => e.clone(),
                    Stmt::Macro(sm) => Expr::Macro(syn::ExprMacro { attrs: Vec::new(), mac: sm.mac.clone() }),
                    _ => return false,
                },
                other => other.clone(),
            };
            if let Expr::Macro(mc) = body {
                return toks(&mc.mac.path) == "panic";
            }
        }
    }
    false
}

// field name -> declared type over all structs of a file (a name declared with two different types is left out)
fn struct_field_types(file: &syn::File) -> HashMap<String, String> {
    let mut out: HashMap<String, String> = HashMap::new();
    let mut clash: Vec<String> = Vec::new();
    for it in &file.items {
        if let syn::Item::Struct(st) = it {
            for f in &st.fields {
                if let Some(id) = &f.ident {
                    let ty = toks(&f.ty);
                    match out.get(&id.to_string()) {
                        Some(t) if *t != ty => clash.push(id.to_string()),
                        _ => { out.insert(id.to_string(), ty); }
                    }
                }
            }
        }
    }
    for c in clash {
        out.remove(&c);
    }
    out
}

// the variable a `let x = ..` / `let x: T = ..` / `let mut x = ..` introduces
fn let_name(p: &Pat) -> Option<String> {
    match p {
        Pat::Ident(i) => Some(i.ident.to_string()),
        Pat::Type(t) => match &*t.pat {
            Pat::Ident(i) => Some(i.ident.to_string()),
            _ => None,
        },
        _ => None,
    }
}

// a Rust type as part of a Coq identifier (u16, usize, KmsProtection, String ...)
fn type_ident(t: &str) -> String {
    t.chars().filter(|c| c.is_alphanumeric() || *c == '_').collect()
}


// what follows the statements being translated
#[derive(Clone)]
enum K<'a> {
    End,                               // end of the function body: return unit
    Seq(&'a [Stmt], Box<K<'a>>, usize), // remaining statements of an enclosing block, its env depth
    LoopNext,                          // end of a for-loop body: go on with the next element
    Join(Vec<String>),                 // end of a branch that rejoins: yield the current versions of these variables
    Val,                               // a block used as a value (let x = if .. { ..; v } else { .. })
    ValJoin(Vec<String>),              // a block used as a value that also assigns these outer variables
    NoFall,                            // a branch that must not fall through (it returns)
    LoopSR(Vec<String>),               // end of the body of a loop with state and early return: next element
    LoopBrk(Vec<String>),              // end of the body of a `loop`: go round again
}

impl<'a> Tr<'a> {
    fn fresh(&mut self, base: &str) -> String {
        self.fresh += 1;
        format!("{}_{}", base.trim_start_matches('_').replace('.', "_"), self.fresh)
    }
    fn lookup(&self, v: &str) -> Option<(String, Kind)> {
        for m in self.env.iter().rev() {
            if let Some(x) = m.get(v) {
                return Some(x.clone());
            }
        }
        None
    }
    fn bind(&mut self, v: &str, kind: Kind) -> String {
        let c = self.fresh(v);
        self.env.last_mut().unwrap().insert(v.to_string(), (c.clone(), kind));
        c
    }
    // assignment to an existing (outer) variable: new version visible from the scope that owns it
    fn rebind(&mut self, v: &str) -> R<String> {
        let c = self.fresh(v);
        for m in self.env.iter_mut().rev() {
            if let Some(x) = m.get_mut(v) {
                x.0 = c.clone();
                return Ok(c);
            }
        }
        Err(format!("assignment to unknown variable {}", v))
    }

    // `return ..` itself, or a block of skipped macros (logging) that ends in one
    fn returning_body<'e>(&self, e: &'e Expr) -> Option<&'e syn::ExprReturn> {
        match e {
            Expr::Return(r) => Some(r),
            Expr::Block(b) => {
                let n = b.block.stmts.len();
                if n == 0 {
                    return None;
                }
                for st in &b.block.stmts[..n - 1] {
                    let skipped = match st {
                        Stmt::Macro(m) => self.is_skipped_macro(&toks(&m.mac.path)),
                        Stmt::Expr(Expr::Macro(m), _) => self.is_skipped_macro(&toks(&m.mac.path)),
                        _ => false,
                    };
                    if !skipped {
                        return None;
                    }
                }
                match &b.block.stmts[n - 1] {
                    Stmt::Expr(Expr::Return(r), _) => Some(r),
                    _ => None,
                }
            }
            _ => None,
        }
    }

    fn is_diverging(&self, e: &Expr) -> bool {
        match e {
            Expr::Paren(p) => self.is_diverging(&p.expr),
            Expr::Call(c) => self.t.diverge.contains_key(&format!("{}/{}", toks(&c.func), c.args.len())),
            Expr::Block(b) => match b.block.stmts.last() {
                Some(Stmt::Expr(x, _)) => self.is_diverging(x),
                _ => false,
            },
            _ => false,
        }
    }

    // an expression that never returns (a call of the `diverge` table, or a block of skipped macros ending in
    // one): the outcome it stands for
    fn diverges(&mut self, e: &Expr) -> Option<R<String>> {
        match e {
            Expr::Paren(p) => self.diverges(&p.expr),
            Expr::Call(c) => {
                let key = format!("{}/{}", toks(&c.func), c.args.len());
                let tmpl = self.t.diverge.get(&key).cloned()?;
                let mut binds = Vec::new();
                let mut args = vec![String::new()];
                for a in &c.args {
                    match self.expr(a, &mut binds) {
                        Ok((v, _)) => args.push(v),
                        Err(e) => return Some(Err(e)),
                    }
                }
                if !binds.is_empty() {
                    return Some(Err("partial argument of a diverging call".into()));
                }
                let t2 = self.subst_vars(&tmpl);
                Some(Ok(Self::subst(&t2, &args)))
            }
            Expr::Block(b) => {
                let n = b.block.stmts.len();
                if n == 0 {
                    return None;
                }
                for st in &b.block.stmts[..n - 1] {
                    let skipped = match st {
                        Stmt::Macro(m) => self.is_skipped_macro(&toks(&m.mac.path)),
                        Stmt::Expr(Expr::Macro(m), _) => self.is_skipped_macro(&toks(&m.mac.path)),
                        _ => false,
                    };
                    if !skipped {
                        return None;
                    }
                }
                match &b.block.stmts[n - 1] {
                    Stmt::Expr(x, _) => self.diverges(x),
                    _ => None,
                }
            }
            _ => None,
        }
    }

    // `<place>.field` or `<alias>.field` on the left of an assignment: (index of the place, field)
    fn place_of(&self, left: &Expr) -> Option<(usize, String)> {
        if let Expr::Field(f) = left {
            let base = toks(&*f.base);
            if let Some(i) = self.t.places.iter().position(|p| p.0 == base) {
                return Some((i, toks(&f.member)));
            }
            if let Some(i) = self.place_alias.get(&base) {
                if self.lookup(&base).is_none() {
                    return Some((*i, toks(&f.member)));
                }
            }
        }
        None
    }

    // <place>.member := newval(current value of the member): the variable holding the place is rebuilt
    fn place_update<F: Fn(&str) -> String>(&mut self, pi: usize, member: &str, newval: F, rest: &[Stmt], k: &K) -> R<String> {
        let (_, var, getter, setter) = self.t.places[pi].clone();
        let cur = format!("({})", self.subst_vars(&getter));
        let (ftmpl, _) = self.t.fields.get(member).cloned().ok_or(format!("field .{} of a place", member))?;
        let fset = self.t.fldset.get(member).cloned().ok_or(format!("fldset for .{}", member))?;
        let curf = format!("({})", Self::subst(&ftmpl, &[cur.clone()]));
        let newrec = format!("({})", Self::subst(&fset, &[cur, newval(&curf)]));
        let term = self.subst_vars(&setter).replace("$v", &newrec);
        let c = self.rebind(&var)?;
        let restc = self.seq(rest, k)?;
        Ok(format!("let {} := {} in\n{}", c, term, restc))
    }

    fn wrap_binds(binds: Vec<(String, String)>, body: String) -> String {
        let mut out = body;
        for (n, r) in binds.into_iter().rev() {
            out = format!("obind ({}) (fun {} =>\n{})", r, n, out);
        }
        out
    }

    fn subst(tmpl: &str, args: &[String]) -> String {
        let mut s = tmpl.to_string();
        for (i, a) in args.iter().enumerate().rev() {
            s = s.replace(&format!("${}", i), a);
        }
        s
    }

    // template substitution with the expected type: `$T` is the type the context asks of the expression
    fn subst_t(&self, tmpl: &str, args: &[String], ty: &Option<String>) -> R<String> {
        let s = Self::subst(tmpl, args);
        if s.contains("$T") {
            match ty {
                Some(t) => Ok(s.replace("$T", &type_ident(t))),
                None => Err(format!("the template `{}` needs the expected type, which the context does not give", tmpl)),
            }
        } else {
            Ok(s)
        }
    }

    // ---- expressions: returns (pre-bindings of partial sub-expressions, pure term, kind)
    fn expr(&mut self, e: &Expr, binds: &mut Vec<(String, String)>) -> R<(String, Kind)> {
        let text = toks(e);
        for (k, v, kind) in &self.t.pure_map {
            if *k == text {
                let v = self.subst_vars(v);
                return Ok((v, *kind));
            }
        }
        for (k, v, kind) in &self.t.part_map {
            if *k == text {
                let n = self.fresh("p");
                let v = self.subst_vars(v);
                binds.push((n.clone(), v));
                return Ok((n, *kind));
            }
        }
        match e {
            Expr::Paren(p) => self.expr(&p.expr, binds),
            Expr::Group(p) => self.expr(&p.expr, binds),
            Expr::Reference(r) => self.expr(&r.expr, binds),
            Expr::Lit(l) => match &l.lit {
                Lit::Int(i) => Ok((format!("{}", i.base10_digits()), Kind::Num)),
                Lit::Bool(b) => Ok((format!("{}", b.value), Kind::Other)),
                Lit::Str(st) => Ok((byte_list(st.value().as_bytes()), Kind::Bytes)),
                Lit::ByteStr(st) => Ok((byte_list(&st.value()), Kind::Bytes)),
                Lit::Char(c) => Ok((byte_list(c.value().to_string().as_bytes()), Kind::Bytes)),
                _ => Err(format!("literal {}", text)),
            },
            Expr::Path(p) => {
                let name = toks(p);
                if let Some((c, k)) = self.lookup(&name) {
                    return Ok((c, k));
                }
                if let Some((c, k)) = self.t.consts.get(&name) {
                    return Ok((c.clone(), *k));
                }
                if let Some(c) = self.t.ctor.get(&name) {
                    return Ok((c.clone(), Kind::Other));
                }
                if name == "None" {
                    return Ok(("None".to_string(), Kind::Other));
                }
                // a constant of the target's own file whose value is a literal: the literal itself
                if let Some(file) = self.file {
                    for it in &file.items {
                        if let syn::Item::Const(c) = it {
                            if c.ident == name.as_str() {
                                if let Expr::Lit(l) = &*c.expr {
                                    match &l.lit {
                                        Lit::Str(st) => return Ok((byte_list(st.value().as_bytes()), Kind::Bytes)),
                                        Lit::Int(i) => return Ok((i.base10_digits().to_string(), Kind::Num)),
                                        _ => {}
                                    }
                                }
                            }
                        }
                    }
                }
                if let Some((ty, fields)) = self.exploded.get(&name).cloned() {
                    // the struct as a whole: rebuilt from the current versions of its fields
                    let ctor = self.t.ctor.get(&ty).cloned().ok_or(format!("struct {}", ty))?;
                    let mut parts = Vec::new();
                    for f in &fields {
                        parts.push(self.lookup(&format!("{}.{}", name, f)).ok_or(format!("field {}.{}", name, f))?.0);
                    }
                    return Ok((format!("({} {})", ctor, parts.join(" ")), Kind::Other));
                }
                Err(format!("unknown name {}", name))
            }
            Expr::Unary(u) => {
                let (a, k) = self.expr(&u.expr, binds)?;
                match u.op {
                    UnOp::Not(_) => Ok((format!("(negb {})", a), Kind::Other)),
                    UnOp::Deref(_) => Ok((a, k)),
                    _ => Err(format!("unary {}", text)),
                }
            }
            Expr::Cast(c) => {
                let (a, _) = self.expr(&c.expr, binds)?;
                let ty = toks(&c.ty);
                match ty.as_str() {
                    "u32" => Ok((format!("(as_u32 {})", a), Kind::Num)),
                    "u16" => Ok((format!("({} mod 65536)", a), Kind::Num)),
                    "u8" => Ok((format!("({} mod 256)", a), Kind::Num)),
                    "u64" | "usize" => Ok((a, Kind::Num)),
                    // an unsizing cast (Box<T> as Box<dyn Trait>): the same value
                    t if t.starts_with("Box<") => Ok((a, Kind::Other)),
                    _ => Err(format!("cast to {}", ty)),
                }
            }
            Expr::Binary(b) if matches!(b.op, BinOp::Shl(_)) => {
                // only a constant shift is in the subset (e.g. 1 << 10)
                match const_eval(e, &self.t.consts) {
                    Some(v) => Ok((v.to_string(), Kind::Num)),
                    None => Err(format!("non-constant shift {}", text)),
                }
            }
            Expr::Binary(b) => {
                let (l, lk) = self.expr(&b.left, binds)?;
                // `&&` / `||` evaluate the right operand lazily: partial sub-expressions on the right
                // would be hoisted in front of the test, so they are not allowed there
                let nb = binds.len();
                let (r, rk) = self.expr(&b.right, binds)?;
                let lazy = matches!(b.op, BinOp::And(_) | BinOp::Or(_));
                if lazy && binds.len() != nb {
                    return Err(format!("partial expression on the right of a lazy operator: {}", text));
                }
                let bytes = lk == Kind::Bytes || rk == Kind::Bytes;
                let tagk = lk == Kind::Tag || rk == Kind::Tag;
                if tagk {
                    let s = match b.op {
                        BinOp::Eq(_) => format!("(tag_eqb {} {})", l, r),
                        BinOp::Ne(_) => format!("(negb (tag_eqb {} {}))", l, r),
                        BinOp::Le(_) => format!("(tag_le {} {})", l, r),
                        BinOp::Ge(_) => format!("(tag_le {} {})", r, l),
                        BinOp::Lt(_) => format!("(tag_lt {} {})", l, r),
                        BinOp::Gt(_) => format!("(tag_lt {} {})", r, l),
                        _ => return Err(format!("operator on tags in {}", text)),
                    };
                    return Ok((s, Kind::Other));
                }
                let s = match b.op {
                    BinOp::And(_) => format!("({} && {})", l, r),
                    BinOp::Or(_) => format!("({} || {})", l, r),
                    BinOp::Eq(_) => {
                        if bytes { format!("(bytes_eqb {} {})", l, r) } else { format!("({} =? {})", l, r) }
                    }
                    BinOp::Ne(_) => {
                        if bytes { format!("(negb (bytes_eqb {} {}))", l, r) } else { format!("(negb ({} =? {}))", l, r) }
                    }
                    BinOp::Lt(_) => format!("({} <? {})", l, r),
                    BinOp::Le(_) => format!("({} <=? {})", l, r),
                    BinOp::Gt(_) => format!("({} <? {})", r, l),
                    BinOp::Ge(_) => format!("({} <=? {})", r, l),
                    BinOp::Add(_) if self.t.wrap64 => format!("(({} + {}) mod two64)", l, r),
                    BinOp::Mul(_) if self.t.wrap64 => format!("(({} * {}) mod two64)", l, r),
                    BinOp::Add(_) => format!("({} + {})", l, r),
                    BinOp::Mul(_) => format!("({} * {})", l, r),
                    BinOp::Div(_) => format!("({} / {})", l, r),
                    BinOp::Rem(_) => format!("({} mod {})", l, r),
                    BinOp::BitAnd(_) => format!("(N.land {} {})", l, r),
                    BinOp::Shr(_) => format!("(N.shiftr {} {})", l, r),
                    BinOp::Sub(_) => {
                        // usize / u64 subtraction panics on underflow (debug) — a checked operation
                        let n = self.fresh("d");
                        binds.push((n.clone(), format!("sub_chk {} {} {}", self.t.panic_site, l, r)));
                        return Ok((n, Kind::Num));
                    }
                    _ => return Err(format!("binary operator in {}", text)),
                };
                let k = match b.op {
                    BinOp::Add(_) | BinOp::Mul(_) | BinOp::Div(_) | BinOp::Rem(_) | BinOp::BitAnd(_) | BinOp::Shr(_) => Kind::Num,
                    _ => Kind::Other,
                };
                Ok((s, k))
            }
            Expr::Field(_) if self.lookup(&text).is_some() => Ok(self.lookup(&text).unwrap()),
            Expr::Field(f) => {
                let member = toks(&f.member);
                let (tmpl, kind) = self.t.fields.get(&member).cloned().ok_or(format!("field .{} in {}", member, text))?;
                let (b, _) = self.expr(&f.base, binds)?;
                Ok((format!("({})", Self::subst(&tmpl, &[b])), kind))
            }
            Expr::Index(ix) if !matches!(&*ix.index, Expr::Range(_)) && !self.t.imaps.contains_key(&toks(&ix.expr)) => {
                // v[i] on a vector / slice: panics when i is out of range
                let recv = toks(&ix.expr);
                let kind = self.t.kinds.get(&format!("{}[]", recv)).cloned().unwrap_or(Kind::Other);
                let (base, _) = self.expr(&ix.expr, binds)?;
                let (i, _) = self.expr(&ix.index, binds)?;
                let n = self.fresh("e");
                binds.push((n.clone(), format!("vec_idx_p {} {} {}", self.t.panic_site, base, i)));
                Ok((n, kind))
            }
            Expr::Range(r) => {
                // a..b / a..=b as the sequence of numbers it iterates over
                let lo = match &r.start {
                    Some(s) => self.expr(s, binds)?.0,
                    None => return Err(format!("open range {}", text)),
                };
                let hi = match &r.end {
                    Some(s) => self.expr(s, binds)?.0,
                    None => return Err(format!("open range {}", text)),
                };
                match r.limits {
                    syn::RangeLimits::HalfOpen(_) => Ok((format!("(range_n {} {})", lo, hi), Kind::Other)),
                    syn::RangeLimits::Closed(_) => Ok((format!("(range_n {} ({} + 1))", lo, hi), Kind::Other)),
                }
            }
            Expr::Index(ix) if !matches!(&*ix.index, Expr::Range(_)) => {
                // map[&Tag::X]: HashMap indexing panics on a missing key
                let recv = toks(&ix.expr);
                let m = match self.t.imaps.get(&recv) {
                    Some(m) => self.subst_vars(m),
                    None => return Err(format!("indexing {} (no imap entry)", text)),
                };
                let key = match &*ix.index {
                    Expr::Reference(r) => toks(&r.expr),
                    other => toks(other),
                };
                let tag = self.t.ctor.get(&key).cloned().ok_or(format!("index key {}", key))?;
                let n = self.fresh("i");
                binds.push((n.clone(), format!("idx_p {} {} {}", self.t.panic_site, m, tag)));
                Ok((n, Kind::Bytes))
            }
            Expr::Match(m) => {
                // a match used as a value: every arm is a plain expression
                let (scrut, _) = self.expr(&m.expr, binds)?;
                let mut out = format!("(match {} with", scrut);
                let mut kind = Kind::Other;
                for a in &m.arms {
                    if a.guard.is_some() {
                        return Err(format!("guard in a value match: {}", text));
                    }
                    let saved = self.env.clone();
                    self.env.push(HashMap::new());
                    let pat = self.pattern(&a.pat)?;
                    let nb = binds.len();
                    let (v, k) = self.expr(&a.body, binds)?;
                    self.env = saved;
                    if binds.len() != nb {
                        return Err(format!("partial expression in an arm of a value match: {}", text));
                    }
                    kind = k;
                    let _ = write!(out, " | {} => {}", pat, v);
                }
                out.push_str(" end)");
                Ok((out, kind))
            }
            Expr::Index(ix) => {
                // slices by range: &buf[a..b], &buf[..b], &buf[a..]
                let (base, bk) = self.expr(&ix.expr, binds)?;
                if let Expr::Range(r) = &*ix.index {
                    let lo = match &r.start {
                        Some(s) => self.expr(s, binds)?.0,
                        None => "0".to_string(),
                    };
                    let hi = match &r.end {
                        Some(s) => self.expr(s, binds)?.0,
                        None => format!("(lenN {})", base),
                    };
                    let n = self.fresh("s");
                    if bk == Kind::Bytes {
                        binds.push((n.clone(), format!("slice_n {} {} {} {}", self.t.panic_site, base, lo, hi)));
                        Ok((n, Kind::Bytes))
                    } else {
                        binds.push((n.clone(), format!("slice_l {} {} {} {}", self.t.panic_site, base, lo, hi)));
                        Ok((n, Kind::Other))
                    }
                } else {
                    Err(format!("index {}", text))
                }
            }
            Expr::MethodCall(m) if m.method == "contains" && m.args.len() == 1 && Self::as_range(&m.receiver).is_some() => {
                // (a..=b).contains(&x)  /  (a..b).contains(&x)
                let r = Self::as_range(&m.receiver).unwrap();
                let (x, _) = self.expr(&m.args[0], binds)?;
                let mut parts = Vec::new();
                if let Some(lo) = &r.start {
                    let (l, _) = self.expr(lo, binds)?;
                    parts.push(format!("({} <=? {})", l, x));
                }
                if let Some(hi) = &r.end {
                    let (h, _) = self.expr(hi, binds)?;
                    match r.limits {
                        syn::RangeLimits::Closed(_) => parts.push(format!("({} <=? {})", x, h)),
                        syn::RangeLimits::HalfOpen(_) => parts.push(format!("({} <? {})", x, h)),
                    }
                }
                Ok((if parts.is_empty() { "true".to_string() } else { format!("({})", parts.join(" && ")) }, Kind::Other))
            }
            Expr::MethodCall(m) if m.method == "map" && m.args.len() == 1 && matches!(&m.args[0], Expr::Closure(_)) && !self.t.method.contains_key("map/1") => {
                // iter.map(|x| body) with a pure body: the list of the bodies' values
                let c = match &m.args[0] { Expr::Closure(c) => c, _ => unreachable!() };
                let pname = match c.inputs.first() {
                    Some(Pat::Ident(i)) if c.inputs.len() == 1 => i.ident.to_string(),
                    Some(Pat::Reference(r)) if c.inputs.len() == 1 => match &*r.pat { Pat::Ident(i) => i.ident.to_string(), o => return Err(format!("closure parameter {}", toks(o))) },
                    _ => return Err(format!("map with a closure whose parameter is not a plain name: {}", text)),
                };
                let (recv, _) = self.expr(&m.receiver, binds)?;
                let saved = self.env.clone();
                self.env.push(HashMap::new());
                let kind = self.t.kinds.get(&pname).cloned().unwrap_or(Kind::Other);
                let x = self.bind(&pname, kind);
                let mut bb = Vec::new();
                let body = self.expr(&c.body, &mut bb);
                self.env = saved;
                let (bv, _) = body?;
                if !bb.is_empty() {
                    return Err(format!("partial expression inside a map closure: {}", text));
                }
                Ok((format!("(map (fun {} => {}) {})", x, bv, recv), Kind::Other))
            }
            Expr::MethodCall(m) if is_unwrap(m) && self.is_fallible(&m.receiver) => {
                // Result::unwrap / expect on a fallible call: the error becomes a panic
                let inner = self.res_expr(&m.receiver, binds)?;
                let n = self.fresh("u");
                binds.push((n.clone(), format!("{} {} ({})", self.t.unwrap_fn, self.t.panic_site, inner)));
                Ok((n, Kind::Other))
            }
            Expr::MethodCall(m) => {
                let key = format!("{}/{}", m.method, m.args.len());
                let (tmpl, kind, partial) = match self.t.method.get(&key) {
                    Some(x) => x.clone(),
                    None => {
                        if toks(&m.receiver) == "self" {
                            if let Some((body, k, mode)) = self.try_inline(&m.method.to_string(), true, true, m.args.iter().collect(), binds)? {
                                if mode == "result" {
                                    return Err(format!("the Result of the inlined helper {} is used other than by `?`: {}", m.method, text));
                                }
                                let n = self.fresh("h");
                                binds.push((n.clone(), body));
                                return Ok((n, k));
                            }
                        }
                        return Err(format!("method {} in {}", key, text));
                    }
                };
                let ty = self.expect_ty.take();
                let mut args = vec![self.expr(&m.receiver, binds)?.0];
                for a in &m.args {
                    args.push(self.expr(a, binds)?.0);
                }
                let s = self.subst_t(&tmpl, &args, &ty)?;
                self.expect_ty = ty;
                if partial {
                    let n = self.fresh("m");
                    binds.push((n.clone(), s));
                    Ok((n, kind))
                } else {
                    Ok((format!("({})", s), kind))
                }
            }
            Expr::Call(c) if toks(&c.func) == "Some" && c.args.len() == 1 => {
                // Some(e) where an Option<T> is expected: e is expected to be a T
                let ty = self.expect_ty.take();
                self.expect_ty = ty.as_ref().and_then(|t| t.strip_prefix("Option<").and_then(|r| r.strip_suffix('>')).map(|x| x.to_string()));
                let r = self.expr(&c.args[0], binds);
                self.expect_ty = ty;
                let (v, _) = r?;
                Ok((format!("(Some {})", v), Kind::Other))
            }
            Expr::Call(c) => {
                let key = format!("{}/{}", toks(&c.func), c.args.len());
                let (tmpl, kind, partial) = match self.t.call.get(&key) {
                    Some(x) => x.clone(),
                    None => {
                        if let Some((name, in_impl)) = self.helper_of_call(&c.func) {
                            if let Some((body, k, mode)) = self.try_inline(&name, in_impl, false, c.args.iter().collect(), binds)? {
                                if mode == "result" {
                                    return Err(format!("the Result of the inlined helper {} is used other than by `?`: {}", name, text));
                                }
                                let n = self.fresh("h");
                                binds.push((n.clone(), body));
                                return Ok((n, k));
                            }
                        }
                        return Err(format!("call {} in {}", key, text));
                    }
                };
                let ty = self.expect_ty.take();
                let mut args = vec![String::new()];
                for a in &c.args {
                    args.push(self.expr(a, binds)?.0);
                }
                let s = self.subst_t(&tmpl, &args, &ty)?;
                self.expect_ty = ty;
                if partial {
                    let n = self.fresh("c");
                    binds.push((n.clone(), s));
                    Ok((n, kind))
                } else {
                    Ok((format!("({})", s), kind))
                }
            }
            Expr::Try(t) => {
                // e? : e must translate to a res term
                let inner = self.res_expr(&t.expr, binds)?;
                let n = self.fresh("q");
                binds.push((n.clone(), inner));
                Ok((n, Kind::Other))
            }
            Expr::Struct(st) => {
                let name = toks(&st.path);
                let ctor = self.t.ctor.get(&name).cloned().ok_or(format!("struct {}", name))?;
                let mut parts = Vec::new();
                let outer = self.expect_ty.take();
                for f in &st.fields {
                    self.expect_ty = self.field_types.get(&toks(&f.member)).cloned();
                    let r = self.expr(&f.expr, binds);
                    self.expect_ty = None;
                    parts.push(r?.0);
                }
                self.expect_ty = outer;
                Ok((format!("({} {})", ctor, parts.join(" ")), Kind::Other))
            }
            Expr::If(i) if i.else_branch.is_some() && !matches!(&*i.cond, Expr::Let(_)) => {
                // if c { a } else { b } used as a value: each branch keeps its own partial operations
                let (c, _) = self.expr(&i.cond, binds)?;
                let branch = |me: &mut Self, b: &Block| -> R<(String, Kind)> {
                    if b.stmts.len() != 1 {
                        return Err(format!("a branch of a value `if` with statements: {}", text));
                    }
                    match &b.stmts[0] {
                        Stmt::Expr(e, None) => {
                            let mut bb = Vec::new();
                            let (v, k) = me.expr(e, &mut bb)?;
                            Ok((Self::wrap_binds(bb, format!("Ok {}", v)), k))
                        }
                        _ => Err(format!("a branch of a value `if` with statements: {}", text)),
                    }
                };
                let (a, ka) = branch(self, &i.then_branch)?;
                let (b, _) = match &i.else_branch {
                    Some((_, eb)) => match &**eb {
                        Expr::Block(bl) => branch(self, &bl.block)?,
                        _ => return Err(format!("else-if in a value `if`: {}", text)),
                    },
                    None => unreachable!(),
                };
                let n = self.fresh("v");
                binds.push((n.clone(), format!("if {} then {} else {}", c, a, b)));
                Ok((n, ka))
            }
            Expr::Array(a) if self.expect_ty.as_ref().map(|t| t.contains("[u8")).unwrap_or(false)
                && a.elems.iter().all(|x| matches!(x, Expr::Lit(l) if matches!(&l.lit, Lit::Int(i) if i.base10_parse::<u16>().map(|v| v < 256).unwrap_or(false)))) => {
                // an array of byte values where a byte slice is expected: the bytes themselves
                let vals: Vec<u8> = a.elems.iter().map(|x| match x { Expr::Lit(l) => match &l.lit { Lit::Int(i) => i.base10_parse::<u16>().unwrap() as u8, _ => 0 }, _ => 0 }).collect();
                Ok((byte_list(&vals), Kind::Bytes))
            }
            Expr::Array(a) => {
                // [a, b, c]: a list
                let mut parts = Vec::new();
                for x in &a.elems {
                    parts.push(self.expr(x, binds)?.0);
                }
                Ok((format!("[{}]", parts.join("; ")), Kind::Other))
            }
            Expr::Tuple(t) if t.elems.is_empty() => Ok(("tt".to_string(), Kind::Other)),
            Expr::Tuple(t) => {
                let mut parts = Vec::new();
                for x in &t.elems {
                    parts.push(self.expr(x, binds)?.0);
                }
                Ok((format!("({})", parts.join(", ")), Kind::Other))
            }
            _ => Err(format!("expression form not in the subset: {}", text)),
        }
    }

    fn as_range(e: &Expr) -> Option<&syn::ExprRange> {
        match e {
            Expr::Paren(p) => Self::as_range(&p.expr),
            Expr::Range(r) => Some(r),
            _ => None,
        }
    }

    fn is_fallible(&self, e: &Expr) -> bool {
        match e {
            Expr::Paren(p) => self.is_fallible(&p.expr),
            Expr::Call(c) => {
                let key = format!("{}/{}", toks(&c.func), c.args.len());
                matches!(self.t.call.get(&key), Some((_, _, true)))
            }
            Expr::MethodCall(m) if m.method == "map_err" && m.args.len() == 1 && matches!(&m.args[0], Expr::Closure(_)) => self.is_fallible(&m.receiver),
            Expr::MethodCall(m) => {
                let key = format!("{}/{}", m.method, m.args.len());
                matches!(self.t.method.get(&key), Some((_, _, true))) && m.method != "unwrap"
            }
            _ => false,
        }
    }

    // table values may mention rust variables as {name}
    fn subst_vars(&self, v: &str) -> String {
        let mut out = v.to_string();
        let mut names: Vec<(String, String)> = Vec::new();
        for m in &self.env {
            for (k, (c, _)) in m {
                names.push((k.clone(), c.clone()));
            }
        }
        // innermost binding wins: later scopes were pushed later
        for (k, _) in names.clone() {
            if let Some((c, _)) = self.lookup(&k) {
                out = out.replace(&format!("{{{}}}", k), &c);
            }
        }
        out
    }

    // an expression whose value is already a `res` (fallible call, table entry marked partial, Ok/Err)
    fn res_expr(&mut self, e: &Expr, binds: &mut Vec<(String, String)>) -> R<String> {
        let text = toks(e);
        for (k, v, _) in &self.t.part_map {
            if *k == text {
                return Ok(self.subst_vars(v));
            }
        }
        match e {
            Expr::Paren(p) => self.res_expr(&p.expr, binds),
            Expr::MethodCall(m) if m.method == "map_err" && m.args.len() == 1 && matches!(&m.args[0], Expr::Closure(_)) && self.is_fallible(&m.receiver) => {
                // r.map_err(|_| E): the error value is replaced (the closure must not use its argument)
                let c = match &m.args[0] { Expr::Closure(c) => c, _ => unreachable!() };
                if !(c.inputs.len() == 1 && matches!(&c.inputs[0], Pat::Wild(_))) {
                    return Err(format!("map_err with a closure that uses its argument: {}", text));
                }
                let body = match &*c.body {
                    Expr::Block(b) if b.block.stmts.len() == 1 => match &b.block.stmts[0] {
                        Stmt::Expr(x, None) => x.clone(),
                        _ => return Err(format!("map_err closure body: {}", text)),
                    },
                    other => other.clone(),
                };
                let inner = self.res_expr(&m.receiver, binds)?;
                let mut eb = Vec::new();
                let ev = self.error_value(&body, &mut eb)?;
                if !eb.is_empty() {
                    return Err(format!("partial expression in a map_err closure: {}", text));
                }
                Ok(format!("omap_err (fun _ => {}) ({})", ev, inner))
            }
            Expr::MethodCall(m) => {
                let key = format!("{}/{}", m.method, m.args.len());
                if let Some((tmpl, _, true)) = self.t.method.get(&key).cloned() {
                    let ty = self.expect_ty.take();
                    let mut args = vec![self.expr(&m.receiver, binds)?.0];
                    for a in &m.args {
                        args.push(self.expr(a, binds)?.0);
                    }
                    let r = self.subst_t(&tmpl, &args, &ty);
                    self.expect_ty = ty;
                    return r;
                }
                if toks(&m.receiver) == "self" && !self.t.method.contains_key(&key) {
                    if let Some((body, _, mode)) = self.try_inline(&m.method.to_string(), true, true, m.args.iter().collect(), binds)? {
                        if mode == "result" {
                            return Ok(body);
                        }
                    }
                }
                Err(format!("`?` / result position on a method that is not fallible in the table: {}", text))
            }
            Expr::Call(c) => {
                let key = format!("{}/{}", toks(&c.func), c.args.len());
                if let Some((tmpl, _, true)) = self.t.call.get(&key).cloned() {
                    let ty = self.expect_ty.take();
                    let mut args = vec![String::new()];
                    for a in &c.args {
                        args.push(self.expr(a, binds)?.0);
                    }
                    let r = self.subst_t(&tmpl, &args, &ty);
                    self.expect_ty = ty;
                    return r;
                }
                if !self.t.call.contains_key(&key) {
                    if let Some((name, in_impl)) = self.helper_of_call(&c.func) {
                        if let Some((body, _, mode)) = self.try_inline(&name, in_impl, false, c.args.iter().collect(), binds)? {
                            if mode == "result" {
                                return Ok(body);
                            }
                        }
                    }
                }
                Err(format!("`?` / result position on a call that is not fallible in the table: {}", text))
            }
            _ => Err(format!("result-valued expression not in the subset: {}", text)),
        }
    }

    // ---- the value a function returns
    fn ret(&mut self, e: &Expr) -> R<String> {
        // the returned expression is a call with an effect on outer variables (table: leteff): its value is the
        // result, the variables get their new versions first
        let text = toks(e);
        if let Some((_, vars, term)) = self.t.leteff.iter().find(|(k, _, _)| *k == text).cloned() {
            if self.loop_sr.is_empty() && self.loop_depth == 0 && !self.t.retstate.is_empty() && !self.inlining() {
                let term = self.subst_vars(&term);
                let mut names = Vec::new();
                for v in &vars {
                    names.push(self.rebind(v)?);
                }
                let fin = self.final_value("r_v")?;
                return Ok(format!("obind ({}) (fun '(r_v, {}) => {})", term, Self::tuple_of(&names), fin));
            }
        }
        let mut binds = Vec::new();
        let body = self.ret_inner(e, &mut binds)?;
        if let Some(vars) = self.loop_sr.last().cloned() {
            // inside a loop with state: the loop stops with the current state and the returned value
            let mut parts = Vec::new();
            for v in &vars {
                parts.push(self.lookup(v).ok_or(format!("loop variable {}", v))?.0);
            }
            return Ok(Self::wrap_binds(binds, format!("obind ({}) (fun r_ret => Ok ({}, Some r_ret))", body, Self::tuple_of(&parts))));
        }
        let body = if self.t.retstate.is_empty() || self.inlining() {
            body
        } else {
            format!("obind ({}) (fun r_v => {})", body, self.final_value("r_v")?)
        };
        // inside a loop body the returned outcome (with the partial operations it needs) is the loop's result
        Ok(self.in_loop(Self::wrap_binds(binds, body)))
    }

    fn in_loop(&self, s: String) -> String {
        if self.loop_depth > 0 { format!("Some ({})", s) } else { s }
    }

    fn ret_inner(&mut self, e: &Expr, binds: &mut Vec<(String, String)>) -> R<String> {
        let mode_s = self.mode();
        let mode = mode_s.as_str();
        match e {
            Expr::Paren(p) => return self.ret_inner(&p.expr, binds),
            Expr::Call(c) if mode == "result" => {
                let f = toks(&c.func);
                if f == "Ok" && c.args.len() == 1 {
                    let (v, _) = self.expr(&c.args[0], binds)?;
                    return Ok(format!("Ok {}", v));
                }
                if f == "Err" && c.args.len() == 1 {
                    let v = self.error_value(&c.args[0], binds)?;
                    return Ok(format!("Err {}", v));
                }
                let r = self.res_expr(e, binds)?;
                return Ok(r);
            }
            Expr::MethodCall(_) if mode == "result" && self.is_fallible(e) => {
                let r = self.res_expr(e, binds)?;
                return Ok(r);
            }
            Expr::MethodCall(m) if mode == "result" && m.method == "map" && m.args.len() == 1 && matches!(&m.args[0], Expr::Closure(_)) => {
                // r.map(|x| body) returned as the function's Result: the Ok value is transformed
                let c = match &m.args[0] { Expr::Closure(c) => c, _ => unreachable!() };
                let name = match c.inputs.first() {
                    Some(Pat::Ident(i)) if c.inputs.len() == 1 => i.ident.to_string(),
                    _ => return Err(format!("map with a closure whose parameter is not a plain name: {}", toks(e))),
                };
                let mut rb = Vec::new();
                let (recv, _) = self.expr(&m.receiver, &mut rb)?;
                if !rb.is_empty() {
                    return Err(format!("map on a receiver that is not a plain Result value: {}", toks(e)));
                }
                let saved = self.env.clone();
                self.env.push(HashMap::new());
                let x = self.bind(&name, Kind::Other);
                let mut bb = Vec::new();
                let body = self.expr(&c.body, &mut bb);
                self.env = saved;
                let (bv, _) = body?;
                return Ok(format!("obind ({}) (fun {} =>\n{})", recv, x, Self::wrap_binds(bb, format!("Ok {}", bv))));
            }
            Expr::Call(c) if mode == "option" => {
                let f = toks(&c.func);
                if f == "Some" && c.args.len() == 1 {
                    let (v, _) = self.expr(&c.args[0], binds)?;
                    return Ok(format!("Ok (Some {})", v));
                }
            }
            Expr::Path(p) if mode == "option" && toks(p) == "None" => {
                return Ok("Ok None".to_string());
            }
            _ => {}
        }
        if mode == "mutresult" {
            // Result<(), E> of a function that mutates self, with the state kept on BOTH outcomes:
            // Ok (Ok tt | Err e, final versions of the retvars)
            if let Expr::Call(c) = e {
                let f = toks(&c.func);
                let vars = self.retvars_value()?;
                let st = vars.strip_prefix("Ok ").unwrap_or(&vars).to_string();
                if f == "Ok" && c.args.len() == 1 && toks(&c.args[0]) == "()" {
                    return Ok(format!("Ok (Ok tt, {})", st));
                }
                if f == "Err" && c.args.len() == 1 {
                    let v = self.error_value(&c.args[0], binds)?;
                    return Ok(format!("Ok (Err {}, {})", v, st));
                }
            }
            return Err(format!("returned expression not in the subset (mutresult): {}", toks(e)));
        }
        if mode == "mutself" {
            if let Expr::Call(c) = e {
                let f = toks(&c.func);
                if f == "Ok" && c.args.len() == 1 && toks(&c.args[0]) == "()" {
                    let v = self.retvars_value()?;
                    return Ok(v);
                }
                if f == "Err" && c.args.len() == 1 {
                    let v = self.error_value(&c.args[0], binds)?;
                    return Ok(format!("Err {}", v));
                }
            }
            return Err(format!("returned expression not in the subset: {}", toks(e)));
        }
        if mode == "result" {
            // a variable or other plain value of type Result is not in the subset; a path bound to a res is
            return Err(format!("returned expression not in the subset: {}", toks(e)));
        }
        let (v, _) = self.expr(e, binds)?;
        Ok(format!("Ok {}", v))
    }

    fn error_value(&mut self, e: &Expr, binds: &mut Vec<(String, String)>) -> R<String> {
        match e {
            Expr::Path(p) => {
                let n = toks(p);
                if let Some((c, _)) = self.lookup(&n) {
                    return Ok(c); // an error value bound by a pattern (`Err(e) => Err(e)`)
                }
                self.t.ctor.get(&n).cloned().ok_or(format!("unknown error constructor {}", n))
            }
            Expr::Call(c) => {
                let n = toks(&c.func);
                let ctor = self.t.ctor.get(&n).cloned().ok_or(format!("unknown error constructor {}", n))?;
                if let Some(bare) = ctor.strip_prefix('!') {
                    // the payload is a formatted message: not modelled
                    return Ok(bare.to_string());
                }
                let mut args = Vec::new();
                for a in &c.args {
                    args.push(self.expr(a, binds)?.0);
                }
                Ok(format!("({} {})", ctor, args.join(" ")))
            }
            // any other expression (a formatted message): by its text, from the table
            other => self.t.ctor.get(&toks(other)).cloned().ok_or(format!("error value {}", toks(e))),
        }
    }

    fn retvars_value(&self) -> R<String> {
        let mut parts = Vec::new();
        for v in &self.t.retvars {
            parts.push(self.lookup(v).ok_or(format!("retvars variable {}", v))?.0);
        }
        Ok(match parts.len() {
            0 => "Ok tt".to_string(),
            1 => format!("Ok {}", parts[0]),
            _ => format!("Ok ({})", parts.join(", ")),
        })
    }

    // the function's result for a returned value: the value, and the final state when the table asks for it
    fn final_value(&self, raw: &str) -> R<String> {
        if self.t.retstate.is_empty() || self.inlining() {
            return Ok(format!("Ok {}", raw));
        }
        let mut parts = Vec::new();
        for v in &self.t.retstate {
            parts.push(self.lookup(v).ok_or(format!("retstate variable {}", v))?.0);
        }
        Ok(format!("Ok ({}, {})", raw, Self::tuple_of(&parts)))
    }

    fn mode(&self) -> String {
        self.mode_override.last().cloned().unwrap_or(self.t.retmode.clone())
    }
    fn inlining(&self) -> bool {
        !self.mode_override.is_empty()
    }

    // ---- a call to a function that is not in the table but is defined in the same source file (a
    // private helper): its body is translated in place, with its parameters bound to the arguments.
    // Returns the body as a term of type `res T`, the kind of T and the helper's return mode.
    fn try_inline(&mut self, fname: &str, in_impl: bool, takes_self: bool, args: Vec<&Expr>, binds: &mut Vec<(String, String)>) -> R<Option<(String, Kind, String)>> {
        let file = match self.file { Some(f) => f, None => return Ok(None) };
        if self.inline_depth >= 3 {
            return Ok(None);
        }
        let found = if in_impl {
            match &self.self_ty { Some(ty) => find_fn(file, &format!("{}::{}", ty, fname)), None => None }
        } else {
            find_fn(file, fname)
        };
        let (sig, block) = match found { Some(x) => x, None => return Ok(None) };
        let has_recv = sig.inputs.iter().any(|a| matches!(a, syn::FnArg::Receiver(_)));
        if has_recv != takes_self {
            return Ok(None);
        }
        if let Some(syn::FnArg::Receiver(r)) = sig.inputs.first() {
            if r.mutability.is_some() {
                return Ok(None); // a helper that mutates self is only inlined as a statement
            }
        }
        let params: Vec<(String, String)> = sig.inputs.iter().filter_map(|a| match a {
            syn::FnArg::Typed(p) => Some((match &*p.pat { Pat::Ident(i) => i.ident.to_string(), o => toks(o) }, toks(&p.ty))),
            _ => None,
        }).collect();
        if params.len() != args.len() || params.iter().any(|(_, ty)| ty.starts_with("&mut")) {
            return Ok(None);
        }
        let (mode, rkind) = match &sig.output {
            syn::ReturnType::Default => ("unit".to_string(), Kind::Other),
            syn::ReturnType::Type(_, ty) => {
                let t = toks(&**ty);
                if t == "()" {
                    ("unit".to_string(), Kind::Other)
                } else if let Some(inner) = t.strip_prefix("Result<") {
                    ("result".to_string(), type_kind(inner.split(',').next().unwrap_or("")))
                } else if let Some(inner) = t.strip_prefix("Option<") {
                    ("option".to_string(), type_kind(inner.trim_end_matches('>')))
                } else {
                    ("value".to_string(), type_kind(&t))
                }
            }
        };
        let mut argv = Vec::new();
        for a in &args {
            argv.push(self.expr(a, binds)?.0);
        }
        // the helper sees the caller's `self` / `self.field` variables and its own parameters
        let mut base: HashMap<String, (String, Kind)> = HashMap::new();
        for m in &self.env {
            for (k, v) in m {
                if k == "self" || k.starts_with("self.") {
                    base.insert(k.clone(), v.clone());
                }
            }
        }
        let mut pm: HashMap<String, (String, Kind)> = HashMap::new();
        for ((name, ty), a) in params.iter().zip(argv.iter()) {
            pm.insert(name.clone(), (a.clone(), type_kind(ty)));
        }
        let saved_env = std::mem::replace(&mut self.env, vec![base, pm]);
        let saved_sr = std::mem::take(&mut self.loop_sr);
        let saved_brk = std::mem::take(&mut self.loop_brk);
        let saved_depth = self.loop_depth;
        self.loop_depth = 0;
        self.mode_override.push(mode.clone());
        self.inline_depth += 1;
        let body = self.seq(&block.stmts, &K::End);
        self.inline_depth -= 1;
        self.mode_override.pop();
        self.loop_depth = saved_depth;
        self.loop_brk = saved_brk;
        self.loop_sr = saved_sr;
        self.env = saved_env;
        let body = body.map_err(|e| format!("in the inlined helper {}: {}", fname, e))?;
        Ok(Some((body, rkind, mode)))
    }

    // callee name of a call expression that could be a private helper: (name, is it in the impl?)
    fn helper_of_call(&self, func: &Expr) -> Option<(String, bool)> {
        let t = toks(func);
        if let Some(rest) = t.strip_prefix("Self::") {
            return Some((rest.to_string(), true));
        }
        if let Some(ty) = &self.self_ty {
            if let Some(rest) = t.strip_prefix(&format!("{}::", ty)) {
                return Some((rest.to_string(), true));
            }
        }
        if !t.contains("::") {
            return Some((t, false));
        }
        None
    }

    fn tuple_of(v: &[String]) -> String {
        match v.len() {
            0 => "tt".to_string(),
            1 => v[0].clone(),
            _ => format!("({})", v.join(", ")),
        }
    }
    fn tuple_pat(v: &[String]) -> String {
        match v.len() {
            0 => "_".to_string(),
            1 => v[0].clone(),
            _ => format!("'({})", v.join(", ")),
        }
    }

    fn mut_keys(&self) -> Vec<String> {
        self.t.mutmethod.keys().chain(self.t.pmutmethod.keys()).chain(self.t.rmutmethod.keys()).cloned().collect()
    }

    // which self.* variables each `&mut self` helper of the target's impl assigns (so that a call to a
    // helper that is inlined as a statement is seen as assigning them)
    fn helper_effects(&self) -> HashMap<String, Vec<String>> {
        let mut out: HashMap<String, Vec<String>> = HashMap::new();
        let (file, ty) = match (self.file, &self.self_ty) { (Some(f), Some(t)) => (f, t.clone()), _ => return out };
        let stmt_vars: Vec<(String, Vec<String>)> = self
            .t
            .smap
            .iter()
            .map(|(k, vs, _)| (k.clone(), vs.clone()))
            .chain(self.t.condmut.iter().map(|(k, vs, _)| (k.clone(), vs.clone())))
            .chain(self.t.scrutmut.iter().map(|(k, vs, _)| (k.clone(), vs.clone())))
            .chain(self.t.condeff.iter().map(|(k, vs, _)| (k.clone(), vs.clone())))
            .chain(self.t.leteff.iter().map(|(k, vs, _)| (k.clone(), vs.clone())))
            .chain(self.t.psmap.iter().map(|(k, vs, _)| (k.clone(), vs.clone())))
                .chain(self.t.places.iter().map(|p| (p.0.clone(), vec![p.1.clone()])))
            .collect();
        // two passes: a helper may call another helper
        for _ in 0..2 {
            for it in &file.items {
                if let Item::Impl(im) = it {
                    if toks(&im.self_ty) != ty {
                        continue;
                    }
                    for ii in &im.items {
                        if let syn::ImplItem::Fn(m) = ii {
                            let mutself = matches!(m.sig.inputs.first(), Some(syn::FnArg::Receiver(r)) if r.mutability.is_some());
                            if !mutself {
                                continue;
                            }
                            let sc = Scan {
                                err_is_value: false,
                                unit_return: false,
                                helpers: out.clone(),
                                has_break: false,
                                value_return: false,
                                assigned: Vec::new(),
                                mutmethods: self.mut_keys(),
                                stmt_vars: stmt_vars.clone(),
                            };
                            let sc = scan_block_with(&m.block, sc);
                            let vars: Vec<String> = sc.assigned.into_iter().filter(|v| v.starts_with("self.")).collect();
                            out.insert(m.sig.ident.to_string(), vars);
                        }
                    }
                }
            }
        }
        out
    }

    fn mk_scan(&self) -> Scan {
        Scan {
            helpers: self.helper_effects(),
            err_is_value: self.mode() == "mutresult",
            unit_return: false,
            has_break: false,
            value_return: false,
            assigned: Vec::new(),
            mutmethods: self.mut_keys(),
            stmt_vars: self
                .t
                .smap
                .iter()
                .map(|(k, vs, _)| (k.clone(), vs.clone()))
                .chain(self.t.condmut.iter().map(|(k, vs, _)| (k.clone(), vs.clone())))
                .chain(self.t.scrutmut.iter().map(|(k, vs, _)| (k.clone(), vs.clone())))
                .chain(self.t.condeff.iter().map(|(k, vs, _)| (k.clone(), vs.clone())))
                .chain(self.t.leteff.iter().map(|(k, vs, _)| (k.clone(), vs.clone())))
                .chain(self.t.psmap.iter().map(|(k, vs, _)| (k.clone(), vs.clone())))
                .chain(self.t.places.iter().map(|p| (p.0.clone(), vec![p.1.clone()])))
                .collect(),
        }
    }

    // a `for` pattern: a variable, `_`, or a (nested) tuple of those
    fn for_pattern(&mut self, p: &Pat) -> R<String> {
        match p {
            Pat::Wild(_) => Ok("_".to_string()),
            Pat::Ident(i) => {
                let n = i.ident.to_string();
                let kind = self.t.kinds.get(&n).cloned().unwrap_or(Kind::Other);
                Ok(self.bind(&n, kind))
            }
            Pat::Reference(r) => self.for_pattern(&r.pat),
            Pat::Tuple(t) => {
                let mut parts = Vec::new();
                for x in &t.elems {
                    parts.push(self.for_pattern(x)?);
                }
                Ok(format!("'({})", parts.join(", ")).replace("'('", "'(").replace(", '(", ", ("))
            }
            _ => Err(format!("for pattern {}", toks(p))),
        }
    }

    // ---- statements
    fn finish(&mut self, k: &K) -> R<String> {
        match k {
            K::End => {
                if self.mode() == "unit" {
                    Ok("Ok tt".to_string())
                } else if self.mode() == "mutself" {
                    self.retvars_value()
                } else {
                    Err("control reaches the end of a non-unit function".into())
                }
            }
            K::LoopNext => Ok("None".to_string()),
            K::Val | K::ValJoin(_) => Err("a block used as a value must end in an expression".into()),
            K::NoFall => Err("the branch of a mutating condition must return".into()),
            K::LoopBrk(vars) => {
                let mut parts = Vec::new();
                for v in vars {
                    parts.push(self.lookup(v).ok_or(format!("loop variable {}", v))?.0);
                }
                Ok(format!("Ok ({}, false)", Self::tuple_of(&parts)))
            }
            K::LoopSR(vars) => {
                let mut parts = Vec::new();
                for v in vars {
                    parts.push(self.lookup(v).ok_or(format!("loop variable {}", v))?.0);
                }
                Ok(format!("Ok ({}, None)", Self::tuple_of(&parts)))
            }
            K::Join(vars) => {
                let mut parts = Vec::new();
                for v in vars {
                    parts.push(self.lookup(v).ok_or(format!("join variable {}", v))?.0);
                }
                Ok(match parts.len() {
                    0 => "Ok tt".to_string(),
                    _ => format!("Ok ({})", parts.join(", ")),
                })
            }
            K::Seq(rest, outer, depth) => {
                // leave the inner block: inner `let`s go out of scope, versions of outer variables stay
                while self.env.len() > *depth {
                    self.env.pop();
                }
                self.seq(rest, outer)
            }
        }
    }

    fn block(&mut self, b: &Block, rest: &[Stmt], k: &K) -> R<String> {
        let depth = self.env.len();
        let saved = self.env.clone();
        self.env.push(HashMap::new());
        let kk = K::Seq(unsafe { std::mem::transmute::<&[Stmt], &[Stmt]>(rest) }, Box::new(k.clone()), depth);
        let out = self.seq(&b.stmts, &kk);
        self.env = saved;
        out
    }

    fn is_skipped_macro(&self, path: &str) -> bool {
        self.t.skip_macros.iter().any(|m| m == path)
    }

    fn seq(&mut self, stmts: &[Stmt], k: &K) -> R<String> {
        if stmts.is_empty() {
            return self.finish(k);
        }
        let (s, rest) = (&stmts[0], &stmts[1..]);
        match s {
            Stmt::Item(_) => self.seq(rest, k), // local consts are listed in the table
            Stmt::Macro(m) => {
                let p = toks(&m.mac.path);
                if self.is_skipped_macro(&p) {
                    self.seq(rest, k)
                } else if p == "panic" || p == "unreachable" {
                    Ok(format!("Panic {}", self.t.panic_site))
                } else if p == "assert_eq" {
                    let args: syn::punctuated::Punctuated<Expr, syn::Token![,]> = m
                        .mac
                        .parse_body_with(syn::punctuated::Punctuated::parse_terminated)
                        .map_err(|e| e.to_string())?;
                    let mut binds = Vec::new();
                    let (a, ka) = self.expr(&args[0], &mut binds)?;
                    let (b, kb) = self.expr(&args[1], &mut binds)?;
                    let c = if ka == Kind::Bytes || kb == Kind::Bytes { format!("bytes_eqb {} {}", a, b) } else { format!("{} =? {}", a, b) };
                    let restc = self.seq(rest, k)?;
                    Ok(Self::wrap_binds(binds, format!("if {} then\n{}\nelse Panic {}", c, restc, self.t.panic_site)))
                } else if p == "assert" {
                    // assert!(cond, ...): panic when the condition is false
                    let args: syn::punctuated::Punctuated<Expr, syn::Token![,]> = m
                        .mac
                        .parse_body_with(syn::punctuated::Punctuated::parse_terminated)
                        .map_err(|e| e.to_string())?;
                    let mut binds = Vec::new();
                    let (c, _) = self.expr(&args[0], &mut binds)?;
                    let restc = self.seq(rest, k)?;
                    Ok(Self::wrap_binds(binds, format!("if {} then\n{}\nelse Panic {}", c, restc, self.t.panic_site)))
                } else {
                    Err(format!("macro {}!", p))
                }
            }
            Stmt::Local(l) if l.init.as_ref().map(|i| self.t.leteff.iter().any(|(k, _, _)| *k == toks(&*i.expr))).unwrap_or(false) => {
                // let x = <call with an effect on outer variables>;  value and new state come from the table
                let init = l.init.as_ref().unwrap();
                let text = toks(&*init.expr);
                let (_, vars, term) = self.t.leteff.iter().find(|(k, _, _)| *k == text).cloned().unwrap();
                let name = match &l.pat {
                    Pat::Ident(i) => i.ident.to_string(),
                    _ => return Err(format!("let pattern {}", toks(&l.pat))),
                };
                let term = self.subst_vars(&term);
                let mut names = Vec::new();
                for v in &vars {
                    names.push(self.rebind(v)?);
                }
                let kind = self.t.kinds.get(&name).cloned().unwrap_or(Kind::Other);
                let c = self.bind(&name, kind);
                let restc = self.seq(rest, k)?;
                Ok(format!("obind ({}) (fun '({}, {}) =>\n{})", term, c, Self::tuple_of(&names), restc))
            }
            Stmt::Local(l) if let_name(&l.pat).map(|n| self.t.letmap.contains_key(&n)).unwrap_or(false) => {
                let name = let_name(&l.pat).unwrap();
                let (term, is_res) = self.t.letmap.get(&name).cloned().unwrap();
                let term = self.subst_vars(&term);
                let kind = self.t.kinds.get(&name).cloned().unwrap_or(Kind::Other);
                let c = self.bind(&name, kind);
                let restc = self.seq(rest, k)?;
                if is_res {
                    Ok(format!("obind ({}) (fun {} =>\n{})", term, c, restc))
                } else {
                    Ok(format!("let {} := {} in\n{}", c, term, restc))
                }
            }
            Stmt::Local(l) if l.init.as_ref().map(|i| self.rmut_call(&i.expr).is_some()).unwrap_or(false) => {
                // let x = recv.m(args)?;  — m returns a value and advances the receiver (a cursor read)
                let init = l.init.as_ref().unwrap();
                let m = self.rmut_call(&init.expr).unwrap().clone();
                let name = match &l.pat {
                    Pat::Ident(i) => i.ident.to_string(),
                    _ => return Err(format!("let pattern {}", toks(&l.pat))),
                };
                let key = format!("{}/{}", m.method, m.args.len());
                let tmpl = self.t.rmutmethod.get(&key).cloned().unwrap();
                let recv = toks(&m.receiver);
                let mut binds = Vec::new();
                let (r0, _) = self.expr(&m.receiver, &mut binds)?;
                let mut args = vec![r0];
                for a in &m.args {
                    args.push(self.expr(a, &mut binds)?.0);
                }
                let v = Self::subst(&tmpl, &args);
                let kind = self.t.kinds.get(&name).cloned().unwrap_or(Kind::Num);
                let rc = self.rebind(&recv)?;
                let c = self.bind(&name, kind);
                let restc = self.seq(rest, k)?;
                Ok(Self::wrap_binds(binds, format!("obind ({}) (fun '({}, {}) =>\n{})", v, c, rc, restc)))
            }
            Stmt::Local(l) if l.init.as_ref().map(|i| matches!(&*i.expr, Expr::Match(m) if m.arms.iter().any(|a| self.returning_body(&a.body).is_some() || self.is_diverging(&a.body)))).unwrap_or(false) => {
                // let x = match e { P => v, Q => return r };  — the arms that yield a value go on with x bound
                let init = l.init.as_ref().unwrap();
                let m = match &*init.expr { Expr::Match(m) => m, _ => unreachable!() };
                let name = match &l.pat {
                    Pat::Ident(i) => i.ident.to_string(),
                    _ => return Err(format!("let pattern {}", toks(&l.pat))),
                };
                let mut binds = Vec::new();
                let (scrut, _) = self.expr(&m.expr, &mut binds)?;
                let mut out = format!("match {} with\n", scrut);
                let pat_key = |p: &Pat| -> String {
                    norm(&format!(" {} ", p.to_token_stream()).replace("(", " ( ").replace(" ref ", " ").replace(" mut ", " "))
                };
                let mut consumed: Vec<usize> = Vec::new();
                for (ai, a) in m.arms.iter().enumerate() {
                    if consumed.contains(&ai) {
                        continue;
                    }
                    let saved = self.env.clone();
                    self.env.push(HashMap::new());
                    let pat = self.pattern(&a.pat)?;
                    let name2 = name.clone();
                    let mut arm_code = |me: &mut Self, body: &Expr| -> R<String> {
                        if let Some(r) = me.returning_body(body) {
                            return match &r.expr {
                                Some(x) => me.ret(x),
                                None if me.mode() == "mutself" => me.retvars_value(),
                                None if me.mode() == "unit" => Ok("Ok tt".to_string()),
                                None => Err("bare return in a let-match".into()),
                            };
                        }
                        if let Some(d) = me.diverges(body) {
                            return d;
                        }
                        if let Expr::Macro(mc) = body {
                            let pth = toks(&mc.mac.path);
                            if pth == "panic" || pth == "unreachable" {
                                return Ok(format!("Panic {}", me.t.panic_site));
                            }
                        }
                        let mut ab = Vec::new();
                        let (v, kind) = me.expr(body, &mut ab)?;
                        let kind = me.t.kinds.get(&name2).cloned().unwrap_or(kind);
                        let c = me.bind(&name2, kind);
                        let restc = me.seq(rest, k)?;
                        Ok(Self::wrap_binds(ab, format!("let {} := {} in\n{}", c, v, restc)))
                    };
                    let body = if let Some((_, g)) = &a.guard {
                        // a failed guard goes on with the later unguarded arm that has the same pattern
                        let same = m.arms.iter().enumerate().skip(ai + 1).find(|(_, b)| b.guard.is_none() && pat_key(&b.pat) == pat_key(&a.pat));
                        let (bi, fb) = same.ok_or("a guarded arm of a let-match needs a later arm with the same pattern")?;
                        consumed.push(bi);
                        let mut gb = Vec::new();
                        let (gc, _) = self.expr(g, &mut gb)?;
                        let then = arm_code(self, &a.body)?;
                        let els = arm_code(self, &fb.body)?;
                        Self::wrap_binds(gb, format!("if {} then\n{}\nelse\n{}", gc, then, els))
                    } else {
                        arm_code(self, &a.body)?
                    };
                    self.env = saved;
                    let _ = write!(out, "| {} =>\n{}\n", pat, body);
                }
                let on_result = m.arms.iter().any(|a| matches!(&a.pat, Pat::TupleStruct(ts) if { let n = toks(&ts.path); n == "Ok" || n == "Err" }));
                let has_wild = m.arms.iter().any(|a| matches!(a.pat, Pat::Wild(_)));
                if on_result && !has_wild {
                    out.push_str("| Panic s_panic => Panic s_panic\n");
                }
                out.push_str("end");
                Ok(Self::wrap_binds(binds, out))
            }
            Stmt::Local(l) if l.init.as_ref().map(|i| matches!(&*i.expr, Expr::Match(m) if m.arms.iter().any(|a| self.arm_needs_block(&a.body)))).unwrap_or(false) => {
                // let x = match e { P => fallible-or-block, ... };
                let init = l.init.as_ref().unwrap();
                // let (a, b) = match ..: the value is bound to a fresh name and taken apart afterwards
                let tuple_names: Option<Vec<String>> = match &l.pat {
                    Pat::Tuple(t) => {
                        let mut ns = Vec::new();
                        for x in &t.elems {
                            match x {
                                Pat::Ident(i) => ns.push(i.ident.to_string()),
                                other => return Err(format!("let pattern {}", toks(other))),
                            }
                        }
                        Some(ns)
                    }
                    _ => None,
                };
                let name = match &l.pat {
                    Pat::Ident(i) => i.ident.to_string(),
                    Pat::Tuple(_) => "tuple_value".to_string(),
                    _ => return Err(format!("let pattern {}", toks(&l.pat))),
                };
                let vars: Vec<String> = self.scan(&init.expr).assigned.into_iter().filter(|v| self.lookup(v).is_some()).collect();
                let kv = if vars.is_empty() { K::Val } else { K::ValJoin(vars.clone()) };
                let saved = self.env.clone();
                let inner = match &*init.expr {
                    Expr::Match(m) => self.match_stmt(m, &[], &kv),
                    _ => unreachable!(),
                };
                self.env = saved;
                let inner = inner?;
                let kind = self.t.kinds.get(&name).cloned().unwrap_or(Kind::Other);
                let mut names = Vec::new();
                for v in &vars {
                    names.push(self.rebind(v)?);
                }
                let c = self.bind(&name, kind);
                let mut destructure = String::new();
                if let Some(ns) = &tuple_names {
                    let mut cs = Vec::new();
                    for n in ns {
                        let kind = self.t.kinds.get(n).cloned().unwrap_or(Kind::Num);
                        cs.push(self.bind(n, kind));
                    }
                    destructure = format!("let '({}) := {} in\n", cs.join(", "), c);
                }
                let restc = format!("{}{}", destructure, self.seq(rest, k)?);
                if vars.is_empty() {
                    Ok(format!("obind ({}) (fun {} =>\n{})", inner, c, restc))
                } else {
                    Ok(format!("obind ({}) (fun '({}, {}) =>\n{})", inner, c, Self::tuple_of(&names), restc))
                }
            }
            Stmt::Local(l) if l.init.as_ref().map(|i| matches!(&*i.expr, Expr::If(_) | Expr::Block(_))).unwrap_or(false)
                && !matches!(&*l.init.as_ref().unwrap().expr, Expr::If(i) if matches!(&*i.cond, Expr::Let(_)) && false) =>
            {
                // let x = if c { ..; v } else { ..; w };   — the branches are blocks used as values
                let init = l.init.as_ref().unwrap();
                let name = let_name(&l.pat).ok_or(format!("let pattern {}", toks(&l.pat)))?;
                let vars: Vec<String> = self.scan(&init.expr).assigned.into_iter().filter(|v| self.lookup(v).is_some()).collect();
                let kv = if vars.is_empty() { K::Val } else { K::ValJoin(vars.clone()) };
                let saved = self.env.clone();
                let inner = match &*init.expr {
                    Expr::If(i) => self.if_stmt(i, &[], &kv),
                    Expr::Block(b) => self.block(&b.block, &[], &kv),
                    _ => unreachable!(),
                };
                self.env = saved;
                let inner = inner?;
                let kind = self.t.kinds.get(&name).cloned().unwrap_or(Kind::Other);
                let mut names = Vec::new();
                for v in &vars {
                    names.push(self.rebind(v)?);
                }
                let c = self.bind(&name, kind);
                let restc = self.seq(rest, k)?;
                if vars.is_empty() {
                    Ok(format!("obind ({}) (fun {} =>\n{})", inner, c, restc))
                } else {
                    Ok(format!("obind ({}) (fun '({}, {}) =>\n{})", inner, c, Self::tuple_of(&names), restc))
                }
            }
            Stmt::Local(l) if matches!(&l.pat, Pat::Tuple(_)) && !matches!(l.init.as_ref().map(|i| &*i.expr), Some(Expr::Match(_)) | Some(Expr::If(_)) | Some(Expr::Block(_))) => {
                // let (a, b) = e;
                let init = l.init.as_ref().ok_or("let without initialiser")?;
                let mut binds = Vec::new();
                let (v, _) = self.expr(&init.expr, &mut binds)?;
                let pat = self.for_pattern(&l.pat)?;
                let restc = self.seq(rest, k)?;
                Ok(Self::wrap_binds(binds, format!("let {} := {} in\n{}", pat, v, restc)))
            }
            Stmt::Local(l) => {
                let init = l.init.as_ref().ok_or("let without initialiser")?;
                let name = match &l.pat {
                    Pat::Ident(i) => i.ident.to_string(),
                    Pat::Type(t) => match &*t.pat {
                        Pat::Ident(i) => i.ident.to_string(),
                        _ => return Err(format!("let pattern {}", toks(&l.pat))),
                    },
                    _ => return Err(format!("let pattern {}", toks(&l.pat))),
                };
                if let Some(pi) = self.t.places.iter().position(|p| p.0 == toks(&*init.expr)) {
                    // let x = <place expression>;  x is another name of that place
                    self.place_alias.insert(name.clone(), pi);
                    return self.seq(rest, k);
                }
                // let x = self.helper(a, b);  where the private helper's whole body is a place expression over
                // parameters that carry the same names as the arguments: x names that place
                if let Expr::MethodCall(m) = &*init.expr {
                    if toks(&m.receiver) == "self" {
                        if let (Some(file), Some(ty)) = (self.file, self.self_ty.clone()) {
                            if let Some((sig, block)) = find_fn(file, &format!("{}::{}", ty, m.method)) {
                                let params: Vec<String> = sig.inputs.iter().filter_map(|a| match a {
                                    syn::FnArg::Typed(p) => Some(match &*p.pat { Pat::Ident(i) => i.ident.to_string(), o => toks(o) }),
                                    _ => None,
                                }).collect();
                                let same_names = params.len() == m.args.len()
                                    && params.iter().zip(m.args.iter()).all(|(p, a)| { let t = toks(a); t == *p || t == format!("&{}", p) });
                                if same_names && block.stmts.len() == 1 {
                                    if let Stmt::Expr(body, None) = &block.stmts[0] {
                                        if let Some(pi) = self.t.places.iter().position(|p| p.0 == toks(body)) {
                                            self.place_alias.insert(name.clone(), pi);
                                            return self.seq(rest, k);
                                        }
                                    }
                                }
                            }
                        }
                    }
                }
                let mut binds = Vec::new();
                if let Expr::Struct(st) = &*init.expr {
                    if self.t.explode.contains(&toks(&st.path)) {
                        // let x = S { f: e, .. } of an exploded type: one variable x.f per field
                        let mut out_binds = Vec::new();
                        let mut fields = Vec::new();
                        let mut vals = Vec::new();
                        for f in &st.fields {
                            let fname = toks(&f.member);
                            self.expect_ty = self.field_types.get(&fname).cloned();
                            let r = self.expr(&f.expr, &mut binds);
                            self.expect_ty = None;
                            let (v, kind) = r?;
                            vals.push((format!("{}.{}", name, fname), v, kind));
                            fields.push(fname);
                        }
                        for (var, v, kind) in vals {
                            let c = self.bind(&var, kind);
                            out_binds.push((c, v));
                        }
                        self.exploded.insert(name.clone(), (toks(&st.path), fields));
                        let restc = self.seq(rest, k)?;
                        let mut out = restc;
                        for (c, v) in out_binds.into_iter().rev() {
                            out = format!("let {} := {} in\n{}", c, v, out);
                        }
                        return Ok(Self::wrap_binds(binds, out));
                    }
                }
                self.expect_ty = match &l.pat { Pat::Type(t) => Some(toks(&t.ty)), _ => None };
                let r = self.expr(&init.expr, &mut binds);
                self.expect_ty = None;
                let (v, kind) = r?;
                let kind = self.t.kinds.get(&name).cloned().unwrap_or(kind);
                let c = self.bind(&name, kind);
                let restc = self.seq(rest, k)?;
                Ok(Self::wrap_binds(binds, format!("let {} := {} in\n{}", c, v, restc)))
            }
            Stmt::Expr(e, _) => self.stmt_expr(e, rest, k),
        }
    }

    fn rmut_call<'e>(&self, e: &'e Expr) -> Option<&'e syn::ExprMethodCall> {
        let e = match e {
            Expr::Cast(c) if matches!(toks(&c.ty).as_str(), "usize" | "u64") => &*c.expr,
            other => other,
        };
        let inner = match e {
            Expr::Try(t) => &*t.expr,
            other => other,
        };
        if let Expr::MethodCall(m) = inner {
            let key = format!("{}/{}", m.method, m.args.len());
            if self.t.rmutmethod.contains_key(&key) {
                return Some(m);
            }
        }
        None
    }

    // an arm whose value needs the monad (a fallible call) or is a block
    fn arm_needs_block(&self, body: &Expr) -> bool {
        match body {
            Expr::Block(_) => true,
            Expr::Try(_) => true,
            Expr::MethodCall(m) if is_unwrap(m) && self.is_fallible(&m.receiver) => true,
            other => self.is_fallible(other),
        }
    }

    fn stmt_expr(&mut self, e: &Expr, rest: &[Stmt], k: &K) -> R<String> {
        let text = toks(e);
        for (key, vars, term) in self.t.psmap.clone() {
            if key == text {
                let term = self.subst_vars(&term);
                let mut names = Vec::new();
                for v in &vars {
                    names.push(self.rebind(v)?);
                }
                let restc = self.seq(rest, k)?;
                return Ok(format!("obind ({}) (fun {} =>\n{})", term, Self::tuple_pat(&names), restc));
            }
        }
        for (key, vars, terms) in self.t.smap.clone() {
            if key == text {
                let terms: Vec<String> = terms.iter().map(|t| self.subst_vars(t)).collect();
                let mut names = Vec::new();
                for v in &vars {
                    names.push(self.rebind(v)?);
                }
                let restc = self.seq(rest, k)?;
                let mut out = restc;
                for (c, term) in names.iter().zip(terms.iter()).rev() {
                    out = format!("let {} := {} in\n{}", c, term, out);
                }
                return Ok(out);
            }
        }
        // process::exit(n);  — a call that never returns: what follows is dead
        if let Some(d) = self.diverges(e) {
            return d;
        }
        // <place>.m(args);  — a mutating method on a place inside a variable (an entry of a map)
        if let Expr::MethodCall(m) = e {
            let key = format!("{}/{}", m.method, m.args.len());
            if let Some(tmpl) = self.t.placemethod.get(&key).cloned() {
                let base = toks(&*m.receiver);
                let pi = self.t.places.iter().position(|p| p.0 == base).or_else(|| {
                    if self.lookup(&base).is_none() { self.place_alias.get(&base).cloned() } else { None }
                });
                if let Some(pi) = pi {
                    let (_, var, getter, setter) = self.t.places[pi].clone();
                    let cur = format!("({})", self.subst_vars(&getter));
                    let mut binds = Vec::new();
                    let mut args = vec![cur];
                    for a in &m.args {
                        args.push(self.expr(a, &mut binds)?.0);
                    }
                    let newrec = format!("({})", Self::subst(&tmpl, &args));
                    let term = self.subst_vars(&setter).replace("$v", &newrec);
                    let c = self.rebind(&var)?;
                    let restc = self.seq(rest, k)?;
                    return Ok(Self::wrap_binds(binds, format!("let {} := {} in\n{}", c, term, restc)));
                }
            }
        }
        // x.m(args)?;  with m a mutating method of the table (fallible: the error propagates)
        if let Expr::Try(tr) = e {
            if let Expr::MethodCall(m) = &*tr.expr {
                let key = format!("{}/{}", m.method, m.args.len());
                let (tmpl, fallible) = match (self.t.pmutmethod.get(&key), self.t.mutmethod.get(&key)) {
                    (Some(t), _) => (Some(t.clone()), true),
                    (None, Some(t)) => (Some(t.clone()), false),
                    _ => (None, false),
                };
                if let Some(tmpl) = tmpl {
                    let recv = toks(&m.receiver);
                    let mut binds = Vec::new();
                    let (r0, _) = self.expr(&m.receiver, &mut binds)?;
                    let mut args = vec![r0];
                    for a in &m.args {
                        args.push(self.expr(a, &mut binds)?.0);
                    }
                    let v = Self::subst(&tmpl, &args);
                    let c = self.rebind(&recv)?;
                    let restc = self.seq(rest, k)?;
                    return Ok(Self::wrap_binds(
                        binds,
                        if fallible { format!("obind ({}) (fun {} =>\n{})", v, c, restc) } else { format!("let {} := {} in\n{}", c, v, restc) },
                    ));
                }
            }
        }
        // x.m(args).unwrap();  with m a fallible mutating method of the table
        if let Expr::MethodCall(u) = e {
            if is_unwrap(u) && u.args.len() <= 1 {
                if let Expr::MethodCall(m) = &*u.receiver {
                    let key = format!("{}/{}", m.method, m.args.len());
                    if let Some(tmpl) = self.t.pmutmethod.get(&key).cloned() {
                        let recv = toks(&m.receiver);
                        let mut binds = Vec::new();
                        let (r0, _) = self.expr(&m.receiver, &mut binds)?;
                        let mut args = vec![r0];
                        for a in &m.args {
                            args.push(self.expr(a, &mut binds)?.0);
                        }
                        let v = Self::subst(&tmpl, &args);
                        let c = self.rebind(&recv)?;
                        let restc = self.seq(rest, k)?;
                        return Ok(Self::wrap_binds(binds, format!("obind ({} {} ({})) (fun {} =>\n{})", self.t.unwrap_fn, self.t.panic_site, v, c, restc)));
                    }
                }
            }
        }
        // f(x)?;  — a fallible call whose value is dropped (not when it IS the value of a block used as a value)
        if let (Expr::Try(tr), false) = (e, rest.is_empty() && self.value_tail(k)) {
            let mut binds = Vec::new();
            if let Ok(r) = self.res_expr(&tr.expr, &mut binds) {
                let restc = self.seq(rest, k)?;
                return Ok(Self::wrap_binds(binds, format!("obind ({}) (fun _ =>\n{})", r, restc)));
            }
        }
        // self.helper(args);  — a private helper of the same impl that mutates self and returns nothing:
        // its body is translated in place as a block
        if let Expr::MethodCall(m) = e {
            let key = format!("{}/{}", m.method, m.args.len());
            let known = self.t.method.contains_key(&key) || self.t.mutmethod.contains_key(&key) || self.t.pmutmethod.contains_key(&key) || self.t.rmutmethod.contains_key(&key);
            if toks(&m.receiver) == "self" && !known && self.inline_depth < 3 {
                if let (Some(file), Some(ty)) = (self.file, self.self_ty.clone()) {
                    if let Some((sig, block)) = find_fn(file, &format!("{}::{}", ty, m.method)) {
                        let unit = match &sig.output { syn::ReturnType::Default => true, syn::ReturnType::Type(_, t) => toks(&**t) == "()" };
                        let params: Vec<(String, String)> = sig.inputs.iter().filter_map(|a| match a {
                            syn::FnArg::Typed(p) => Some((match &*p.pat { Pat::Ident(i) => i.ident.to_string(), o => toks(o) }, toks(&p.ty))),
                            _ => None,
                        }).collect();
                        let sc = scan_block_with(block, self.mk_scan());
                        if unit && !sc.value_return && params.len() == m.args.len() && !params.iter().any(|(_, t)| t.starts_with("&mut")) {
                            let mut binds = Vec::new();
                            let mut argv = Vec::new();
                            for a in &m.args {
                                argv.push(self.expr(a, &mut binds)?.0);
                            }
                            let depth = self.env.len();
                            let saved = self.env.clone();
                            let mut pm: HashMap<String, (String, Kind)> = HashMap::new();
                            for ((name, t), a) in params.iter().zip(argv.iter()) {
                                pm.insert(name.clone(), (a.clone(), type_kind(t)));
                            }
                            self.env.push(pm);
                            self.inline_depth += 1;
                            let kk = K::Seq(unsafe { std::mem::transmute::<&[Stmt], &[Stmt]>(rest) }, Box::new(k.clone()), depth);
                            let out = self.seq(&block.stmts, &kk);
                            self.inline_depth -= 1;
                            self.env = saved;
                            // the variables the helper assigned keep their new versions: re-run is not needed because
                            // the continuation was translated inside (K::Seq)
                            let out = out.map_err(|e| format!("in the inlined helper {}: {}", m.method, e))?;
                            return Ok(Self::wrap_binds(binds, out));
                        }
                    }
                }
            }
        }
        match e {
            Expr::Macro(m) => {
                let p = toks(&m.mac.path);
                if self.is_skipped_macro(&p) {
                    self.seq(rest, k)
                } else if p == "panic" || p == "unreachable" {
                    Ok(format!("Panic {}", self.t.panic_site))
                } else {
                    Err(format!("macro {}!", p))
                }
            }
            Expr::Return(r) if r.expr.is_none() && self.ret_is_break && !self.loop_brk.is_empty() => {
                let vars = self.loop_brk.last().cloned().unwrap();
                let mut parts = Vec::new();
                for v in &vars {
                    parts.push(self.lookup(v).ok_or(format!("loop variable {}", v))?.0);
                }
                Ok(format!("Ok ({}, true)", Self::tuple_of(&parts)))
            }
            Expr::Return(r) => match &r.expr {
                Some(x) => self.ret(x),
                None if self.mode() == "mutself" => self.retvars_value(),
                None => Ok(self.in_loop("Ok tt".to_string())),
            },
            Expr::Assign(a) if self.place_of(&a.left).is_some() => {
                let (pi, member) = self.place_of(&a.left).unwrap();
                let mut binds = Vec::new();
                let (v, _) = self.expr(&a.right, &mut binds)?;
                let out = self.place_update(pi, &member, |_cur| v.clone(), rest, k)?;
                Ok(Self::wrap_binds(binds, out))
            }
            Expr::Binary(b) if is_assign_op(&b.op) && self.place_of(&b.left).is_some() => {
                let (pi, member) = self.place_of(&b.left).unwrap();
                let mut binds = Vec::new();
                let (v, _) = self.expr(&b.right, &mut binds)?;
                let op = match b.op {
                    BinOp::AddAssign(_) => "+",
                    BinOp::MulAssign(_) => "*",
                    _ => return Err(format!("compound assignment to a place: {}", toks(e))),
                };
                let out = self.place_update(pi, &member, |cur| format!("({} {} {})", cur, op, v), rest, k)?;
                Ok(Self::wrap_binds(binds, out))
            }
            Expr::Assign(a) => {
                let name = toks(&a.left);
                let mut binds = Vec::new();
                self.expect_ty = match &*a.left { Expr::Field(f) => self.field_types.get(&toks(&f.member)).cloned(), _ => None };
                let r = self.expr(&a.right, &mut binds);
                self.expect_ty = None;
                let (v, _) = r?;
                let c = self.rebind(&name)?;
                let restc = self.seq(rest, k)?;
                Ok(Self::wrap_binds(binds, format!("let {} := {} in\n{}", c, v, restc)))
            }
            Expr::Binary(b) if is_assign_op(&b.op) => {
                let name = toks(&b.left);
                let mut binds = Vec::new();
                let (cur, _) = self.expr(&b.left, &mut binds)?;
                let (v, _) = self.expr(&b.right, &mut binds)?;
                let val = match b.op {
                    BinOp::AddAssign(_) => format!("({} + {})", cur, v),
                    BinOp::MulAssign(_) => format!("({} * {})", cur, v),
                    BinOp::DivAssign(_) => format!("({} / {})", cur, v),
                    BinOp::ShrAssign(_) => format!("(N.shiftr {} {})", cur, v),
                    BinOp::BitAndAssign(_) => format!("(N.land {} {})", cur, v),
                    BinOp::SubAssign(_) => {
                        let n = self.fresh("d");
                        binds.push((n.clone(), format!("sub_chk {} {} {}", self.t.panic_site, cur, v)));
                        n
                    }
                    _ => return Err(format!("compound assignment {}", toks(e))),
                };
                let c = self.rebind(&name)?;
                let restc = self.seq(rest, k)?;
                Ok(Self::wrap_binds(binds, format!("let {} := {} in\n{}", c, val, restc)))
            }
            Expr::ForLoop(f) if self.loop_depth == 0 && !scan_block_with(&f.body, self.mk_scan()).value_return => {
                // a loop that only updates outer variables: a fold over the iterated list
                let sc = scan_block_with(&f.body, self.mk_scan());
                let vars: Vec<String> = sc.assigned.into_iter().filter(|v| self.lookup(v).is_some()).collect();
                let mut binds = Vec::new();
                let (it, _) = self.expr(&f.expr, &mut binds)?;
                let mut init = Vec::new();
                for v in &vars {
                    init.push(self.lookup(v).unwrap().0);
                }
                let saved = self.env.clone();
                // inside the body the state variables are the lambda's parameters
                let mut params = Vec::new();
                for v in &vars {
                    params.push(self.rebind(v)?);
                }
                self.env.push(HashMap::new());
                let xpat = self.for_pattern(&f.pat);
                // a `break` in the body: the fold carries "stopped" beside the state (fold_brk), the body answers
                // (state, true) at a break and (state, false) when it runs to its end — as for `loop`
                let brk = sc.has_break;
                if brk {
                    self.loop_brk.push(vars.clone());
                }
                let body = match &xpat {
                    Ok(_) => self.seq(&f.body.stmts, &if brk { K::LoopBrk(vars.clone()) } else { K::Join(vars.clone()) }),
                    Err(e) => Err(e.clone()),
                };
                if brk {
                    self.loop_brk.pop();
                }
                self.env = saved;
                let xpat = xpat?;
                let (xv, body) = if xpat.starts_with("'(") {
                    ("x_it".to_string(), format!("let {} := x_it in\n{}", xpat, body?))
                } else {
                    (xpat, body?)
                };
                let tuple = |v: &Vec<String>| match v.len() {
                    0 => "tt".to_string(),
                    1 => v[0].clone(),
                    _ => format!("({})", v.join(", ")),
                };
                let pat = |v: &Vec<String>| match v.len() {
                    0 => "_".to_string(),
                    1 => v[0].clone(),
                    _ => format!("'({})", v.join(", ")),
                };
                let mut outs = Vec::new();
                for v in &vars {
                    outs.push(self.rebind(v)?);
                }
                let restc = self.seq(rest, k)?;
                Ok(Self::wrap_binds(
                    binds,
                    format!("obind ({} (fun {} {} =>\n{}) {} {}) (fun {} =>\n{})", if brk { "fold_brk" } else if self.t.restype.is_some() { "fold_out" } else { "fold_res" }, pat(&params), xv, body, it, tuple(&init), pat(&outs), restc),
                ))
            }
            Expr::ForLoop(f) if self.loop_depth == 0 && self.loop_sr.is_empty() && {
                let sc = scan_block_with(&f.body, self.mk_scan());
                sc.value_return && sc.assigned.iter().any(|v| self.lookup(v).is_some())
            } => {
                // a loop that updates outer variables AND may return a value early
                let sc = scan_block_with(&f.body, self.mk_scan());
                let vars: Vec<String> = sc.assigned.into_iter().filter(|v| self.lookup(v).is_some()).collect();
                let mut binds = Vec::new();
                let (it, _) = self.expr(&f.expr, &mut binds)?;
                let mut init = Vec::new();
                for v in &vars {
                    init.push(self.lookup(v).unwrap().0);
                }
                let saved = self.env.clone();
                let mut params = Vec::new();
                for v in &vars {
                    params.push(self.rebind(v)?);
                }
                self.env.push(HashMap::new());
                let xpat = self.for_pattern(&f.pat);
                self.loop_sr.push(vars.clone());
                let body = match &xpat {
                    Ok(_) => self.seq(&f.body.stmts, &K::LoopSR(vars.clone())),
                    Err(e) => Err(e.clone()),
                };
                self.loop_sr.pop();
                self.env = saved;
                let xpat = xpat?;
                let (xv, body) = if xpat.starts_with("'(") {
                    ("x_it".to_string(), format!("let {} := x_it in\n{}", xpat, body?))
                } else {
                    (xpat, body?)
                };
                let mut outs = Vec::new();
                for v in &vars {
                    outs.push(self.rebind(v)?);
                }
                let fin = self.final_value("r_loop")?;
                let restc = self.seq(rest, k)?;
                Ok(Self::wrap_binds(
                    binds,
                    format!(
                        "obind (loop_sr (fun {} {} =>\n{}) {} {}) (fun '({}, o_loop) =>\nmatch o_loop with\n| Some r_loop => {}\n| None =>\n{}\nend)",
                        Self::tuple_pat(&params), xv, body, it, Self::tuple_of(&init),
                        Self::tuple_pat(&outs).trim_start_matches('\''), fin, restc
                    ),
                ))
            }
            Expr::If(_) | Expr::Match(_) if self.joinable(e, rest, k) => self.join_stmt(e, rest, k),
            Expr::If(i) => self.if_stmt(i, rest, k),
            Expr::Match(m) => self.match_stmt(m, rest, k),
            Expr::ForLoop(f) => {
                let mut binds = Vec::new();
                let (it, _) = self.expr(&f.expr, &mut binds)?;
                let saved = self.env.clone();
                self.env.push(HashMap::new());
                let xpat = self.for_pattern(&f.pat);
                self.loop_depth += 1;
                let body = match &xpat {
                    Ok(_) => self.seq(&f.body.stmts, &K::LoopNext),
                    Err(e) => Err(e.clone()),
                };
                self.loop_depth -= 1;
                self.env = saved;
                let xpat = xpat?;
                let (c, body) = if xpat.starts_with("'(") {
                    ("x_it".to_string(), format!("let {} := x_it in\n{}", xpat, body?))
                } else {
                    (xpat, body?)
                };
                let restc = if self.loop_depth > 0 {
                    // still inside an outer loop body: falling out of this loop continues that body
                    self.seq(rest, k)?
                } else {
                    self.seq(rest, k)?
                };
                let hit = if self.loop_depth > 0 { "Some r_loop" } else { "r_loop" };
                Ok(Self::wrap_binds(
                    binds,
                    format!("match loop_ret {} (fun {} =>\n{}) with\n| Some r_loop => {}\n| None =>\n{}\nend", it, c, body, hit, restc),
                ))
            }
            Expr::Loop(lp) => {
                // loop { .. if c { break; } }  on fuel: the state is what the body assigns
                let fuel = self.t.loopfuel.clone().ok_or("a `loop` needs a loopfuel entry")?;
                let fuel = self.subst_vars(&fuel);
                let sc = scan_block_with(&lp.body, self.mk_scan());
                // `return;` inside a loop that is the LAST statement of a function returning nothing (or only its
                // mutated state) leaves the loop and the function at once: it is a `break`
                let last = rest.is_empty() && matches!(k, K::End) && matches!(self.mode().as_str(), "unit" | "mutself");
                let only_bare = {
                    struct V(bool);
                    impl<'ast> syn::visit::Visit<'ast> for V {
                        fn visit_expr_return(&mut self, r: &'ast syn::ExprReturn) { if r.expr.is_some() { self.0 = true; } }
                        fn visit_expr_closure(&mut self, _c: &'ast syn::ExprClosure) {}
                    }
                    let mut v = V(false);
                    syn::visit::Visit::visit_block(&mut v, &lp.body);
                    !v.0
                };
                if sc.value_return && !(last && only_bare) {
                    return Err("return inside a `loop`".into());
                }
                let saved_rib = self.ret_is_break;
                self.ret_is_break = sc.value_return;
                let vars: Vec<String> = sc.assigned.into_iter().filter(|v| self.lookup(v).is_some()).collect();
                let mut init = Vec::new();
                for v in &vars {
                    init.push(self.lookup(v).unwrap().0);
                }
                let saved = self.env.clone();
                let mut params = Vec::new();
                for v in &vars {
                    params.push(self.rebind(v)?);
                }
                self.env.push(HashMap::new());
                self.loop_brk.push(vars.clone());
                let body = self.seq(&lp.body.stmts, &K::LoopBrk(vars.clone()));
                self.ret_is_break = saved_rib;
                self.loop_brk.pop();
                self.env = saved;
                let body = body?;
                let mut outs = Vec::new();
                for v in &vars {
                    outs.push(self.rebind(v)?);
                }
                let restc = self.seq(rest, k)?;
                Ok(format!(
                    "obind (loop_fuel ({}) (fun {} =>\n{}) {}) (fun {} =>\n{})",
                    fuel, Self::tuple_pat(&params), body, Self::tuple_of(&init), Self::tuple_pat(&outs), restc
                ))
            }
            Expr::While(w) if matches!(&*w.cond, Expr::Let(_)) => {
                // while let PAT = e { body }   is   loop { match e { PAT => { body } _ => { break; } } }
                let l = match &*w.cond { Expr::Let(l) => l, _ => unreachable!() };
                let (pat, scrut, body) = (&l.pat, &l.expr, &w.body);
                let desugared: Expr = syn::parse_quote!( loop { match #scrut { #pat => #body, _ => { break; } } } );
                self.stmt_expr(&desugared, rest, k)
            }
            Expr::While(w) => {
                // while c { body }  on fuel: the state is what the body assigns
                let fuel = self.t.loopfuel.clone().ok_or("a `while` needs a loopfuel entry")?;
                let fuel = self.subst_vars(&fuel);
                let sc = scan_block_with(&w.body, self.mk_scan());
                if sc.value_return || sc.has_break {
                    return Err("return / break inside a `while`".into());
                }
                let vars: Vec<String> = sc.assigned.into_iter().filter(|v| self.lookup(v).is_some()).collect();
                let mut init = Vec::new();
                for v in &vars {
                    init.push(self.lookup(v).unwrap().0);
                }
                let saved = self.env.clone();
                let mut params = Vec::new();
                for v in &vars {
                    params.push(self.rebind(v)?);
                }
                let env_in = self.env.clone();
                let mut cb = Vec::new();
                let cond = self.expr(&w.cond, &mut cb);
                self.env = env_in;
                self.env.push(HashMap::new());
                let body = self.seq(&w.body.stmts, &K::Join(vars.clone()));
                self.env = saved;
                let (c, _) = cond?;
                let cond_term = Self::wrap_binds(cb, format!("Ok {}", c));
                let body = body?;
                let mut outs = Vec::new();
                for v in &vars {
                    outs.push(self.rebind(v)?);
                }
                let restc = self.seq(rest, k)?;
                Ok(format!(
                    "obind (while_fuel ({}) (fun {} =>\n{}) (fun {} =>\n{}) {}) (fun {} =>\n{})",
                    fuel, Self::tuple_pat(&params), cond_term, Self::tuple_pat(&params), body,
                    Self::tuple_of(&init), Self::tuple_pat(&outs), restc
                ))
            }
            Expr::Break(_) => {
                let vars = self.loop_brk.last().cloned().ok_or("break outside a translated `loop`")?;
                let mut parts = Vec::new();
                for v in &vars {
                    parts.push(self.lookup(v).ok_or(format!("loop variable {}", v))?.0);
                }
                Ok(format!("Ok ({}, true)", Self::tuple_of(&parts)))
            }
            Expr::Block(b) => self.block(&b.block, rest, k),
            Expr::MethodCall(m) if !rest.is_empty() || !matches!(k, K::End | K::Val) || true => {
                let key = format!("{}/{}", m.method, m.args.len());
                if let (Some(tmpl), Expr::Index(ix)) = (self.t.mutmethod.get(&key).cloned(), &*m.receiver) {
                    if !matches!(&*ix.index, Expr::Range(_)) && self.lookup(&toks(&ix.expr)).is_some() {
                        // v[i].push(x);  — element i of the vector variable v gets a new value
                        let base = toks(&ix.expr);
                        let mut binds = Vec::new();
                        let (b0, _) = self.expr(&ix.expr, &mut binds)?;
                        let (i0, _) = self.expr(&ix.index, &mut binds)?;
                        let old = self.fresh("e");
                        binds.push((old.clone(), format!("vec_idx_p {} {} {}", self.t.panic_site, b0, i0)));
                        let mut args = vec![old.clone()];
                        for a in &m.args {
                            args.push(self.expr(a, &mut binds)?.0);
                        }
                        let v = Self::subst(&tmpl, &args);
                        let c = self.rebind(&base)?;
                        let restc = self.seq(rest, k)?;
                        return Ok(Self::wrap_binds(binds, format!("let {} := vec_set {} {} ({}) in\n{}", c, b0, i0, v, restc)));
                    }
                }
                if let Some(tmpl) = self.t.mutmethod.get(&key).cloned() {
                    // x.extend(y);  — the receiver variable gets a new value
                    let recv = toks(&m.receiver);
                    let mut binds = Vec::new();
                    let (r0, _) = self.expr(&m.receiver, &mut binds)?;
                    let mut args = vec![r0];
                    for a in &m.args {
                        args.push(self.expr(a, &mut binds)?.0);
                    }
                    let v = Self::subst(&tmpl, &args);
                    let c = self.rebind(&recv)?;
                    let restc = self.seq(rest, k)?;
                    return Ok(Self::wrap_binds(binds, format!("let {} := {} in\n{}", c, v, restc)));
                }
                if let Some(tmpl) = self.t.pmutmethod.get(&key).cloned() {
                    // x.m(args);  — m returns () but may panic; the receiver variable gets a new value
                    let recv = toks(&m.receiver);
                    let mut binds = Vec::new();
                    let (r0, _) = self.expr(&m.receiver, &mut binds)?;
                    let mut args = vec![r0];
                    for a in &m.args {
                        args.push(self.expr(a, &mut binds)?.0);
                    }
                    let v = Self::subst(&tmpl, &args);
                    let c = self.rebind(&recv)?;
                    let restc = self.seq(rest, k)?;
                    return Ok(Self::wrap_binds(binds, format!("obind ({}) (fun {} =>\n{})", v, c, restc)));
                }
                if is_unwrap(m) && self.is_fallible(&m.receiver) && (!rest.is_empty() || !self.tail_position(k)) {
                    // f(x).unwrap();  — the value is dropped, an error is a panic
                    let mut binds = Vec::new();
                    let r = self.res_expr(&m.receiver, &mut binds)?;
                    let restc = self.seq(rest, k)?;
                    return Ok(Self::wrap_binds(binds, format!("obind ({} {} ({})) (fun _ =>\n{})", self.t.unwrap_fn, self.t.panic_site, r, restc)));
                }
                if self.is_fallible(e) && (!rest.is_empty() || !self.tail_position(k)) {
                    // self.validate_x();  — may panic, value dropped
                    let mut binds = Vec::new();
                    let r = self.res_expr(e, &mut binds)?;
                    let restc = self.seq(rest, k)?;
                    return Ok(Self::wrap_binds(binds, format!("obind ({}) (fun _ =>\n{})", r, restc)));
                }
                self.tail_expr(e, rest, k)
            }
            _ => self.tail_expr(e, rest, k),
        }
    }

    // the statement is the value of a block used as a value (let x = { ..; e } / a match arm yielding a value)
    fn value_tail(&self, k: &K) -> bool {
        let mut kk = k;
        loop {
            match kk {
                K::Seq(r, outer, _) if r.is_empty() => kk = outer,
                K::Val | K::ValJoin(_) => return true,
                _ => return false,
            }
        }
    }

    fn tail_position(&self, k: &K) -> bool {
        let mut kk = k;
        loop {
            match kk {
                K::Seq(r, outer, _) if r.is_empty() => kk = outer,
                K::End | K::Val | K::ValJoin(_) => return true,
                _ => return false,
            }
        }
    }

    fn tail_expr(&mut self, e: &Expr, rest: &[Stmt], k: &K) -> R<String> {
        match e {
            // `()` as a statement or as the value of a unit arm (`Ok(_) => (),`): nothing happens
            Expr::Tuple(t) if t.elems.is_empty() && !(rest.is_empty() && matches!(k, K::End | K::Val | K::ValJoin(_))) => self.seq(rest, k),
            _ => {
                // tail expression of the function body (or of a block in tail position)
                if rest.is_empty() && matches!(k, K::End) {
                    self.ret(e)
                } else if rest.is_empty() {
                    // value of an inner block in tail position: only when nothing follows in the outer blocks
                    let mut kk = k;
                    loop {
                        match kk {
                            K::Seq(r, outer, _) if r.is_empty() => kk = outer,
                            K::End => return self.ret(e),
                            K::Val => {
                                let mut binds = Vec::new();
                                let (v, _) = self.expr(e, &mut binds)?;
                                return Ok(Self::wrap_binds(binds, format!("Ok {}", v)));
                            }
                            K::ValJoin(vars) => {
                                let mut binds = Vec::new();
                                let (v, _) = self.expr(e, &mut binds)?;
                                let mut parts = Vec::new();
                                for x in vars {
                                    parts.push(self.lookup(x).ok_or(format!("join variable {}", x))?.0);
                                }
                                return Ok(Self::wrap_binds(binds, format!("Ok ({}, {})", v, Self::tuple_of(&parts))));
                            }
                            _ => return Err(format!("expression statement not in the subset: {}", toks(e))),
                        }
                    }
                } else {
                    Err(format!("expression statement not in the subset: {}", toks(e)))
                }
            }
        }
    }

    // an `if` / `match` STATEMENT that is followed by more code and never returns a value early is
    // translated once and rejoined (the continuation is not duplicated into its branches)
    fn scan(&self, e: &Expr) -> Scan {
        scan_expr_with(e, self.mk_scan())
    }

    fn joinable(&self, e: &Expr, rest: &[Stmt], k: &K) -> bool {
        let follows = !rest.is_empty() || !matches!(k, K::End);
        if rest.is_empty() && self.tail_position(k) {
            return false; // the statement IS the value of the enclosing block / function
        }
        let sc = self.scan(e);
        follows && self.loop_depth == 0 && !sc.value_return && !sc.has_break
    }

    fn join_stmt(&mut self, e: &Expr, rest: &[Stmt], k: &K) -> R<String> {
        let sc = self.scan(e);
        // only variables that exist before the statement are carried out of it
        let vars: Vec<String> = sc.assigned.into_iter().filter(|v| self.lookup(v).is_some()).collect();
        let saved = self.env.clone();
        let jk = K::Join(vars.clone());
        let inner = match e {
            Expr::If(i) => self.if_stmt(i, &[], &jk),
            Expr::Match(m) => self.match_stmt(m, &[], &jk),
            _ => unreachable!(),
        };
        self.env = saved;
        let inner = inner?;
        let mut names = Vec::new();
        for v in &vars {
            names.push(self.rebind(v)?);
        }
        let pat = match names.len() {
            0 => "_".to_string(),
            1 => names[0].clone(),
            _ => format!("'({})", names.join(", ")),
        };
        let restc = self.seq(rest, k)?;
        Ok(format!("obind ({}) (fun {} =>\n{})", inner, pat, restc))
    }

    fn pattern(&mut self, p: &Pat) -> R<String> {
        match p {
            Pat::Wild(_) => Ok("_".to_string()),
            Pat::Ident(i) => {
                let n = i.ident.to_string();
                if let Some(c) = self.t.ctor.get(&n) {
                    return Ok(c.clone());
                }
                if n == "None" {
                    return Ok("None".to_string());
                }
                let kind = self.t.kinds.get(&n).cloned().unwrap_or(Kind::Other);
                Ok(self.bind(&n, kind))
            }
            Pat::Path(pp) => {
                let n = toks(pp);
                self.t.ctor.get(&n).cloned().ok_or(format!("pattern path {}", n))
            }
            Pat::TupleStruct(ts) => {
                let n = toks(&ts.path);
                let ctor = match n.as_str() {
                    "Some" => "Some".to_string(),
                    "Ok" => "Ok".to_string(),
                    "Err" => "Err".to_string(),
                    _ => self.t.ctor.get(&n).cloned().ok_or(format!("pattern constructor {}", n))?,
                };
                if ts.elems.iter().all(|x| matches!(x, Pat::Rest(_))) {
                    // V4(..): the payload is not looked at; the table's constructor stands for the whole variant
                    return Ok(ctor);
                }
                let mut parts = Vec::new();
                for x in &ts.elems {
                    parts.push(self.pattern(x)?);
                }
                Ok(format!("{} {}", ctor, parts.join(" ")))
            }
            Pat::Lit(l) => Ok(toks(l)),
            Pat::Tuple(t) => {
                let mut parts = Vec::new();
                for x in &t.elems {
                    parts.push(self.pattern(x)?);
                }
                Ok(format!("({})", parts.join(", ")))
            }
            Pat::Reference(r) => self.pattern(&r.pat),
            Pat::Or(o) => {
                // A | B | C (no bindings expected): the same alternatives in Coq
                let mut parts = Vec::new();
                for c in &o.cases {
                    parts.push(self.pattern(c)?);
                }
                Ok(parts.join(" | "))
            }
            _ => Err(format!("pattern {}", toks(p))),
        }
    }

    fn if_stmt(&mut self, i: &syn::ExprIf, rest: &[Stmt], k: &K) -> R<String> {
        let else_code = |me: &mut Self| -> R<String> {
            match &i.else_branch {
                None => me.seq(rest, k),
                Some((_, eb)) => match &**eb {
                    Expr::Block(b) => me.block(&b.block, rest, k),
                    Expr::If(j) => me.if_stmt(j, rest, k),
                    other => Err(format!("else branch {}", toks(other))),
                },
            }
        };
        if let Expr::Let(l) = &*i.cond {
            // if let PAT = e { .. } else { .. }
            let mut binds = Vec::new();
            let (scrut, _) = self.expr(&l.expr, &mut binds)?;
            let saved = self.env.clone();
            self.env.push(HashMap::new());
            let pat = self.pattern(&l.pat);
            let then = match &pat {
                Ok(_) => self.block(&i.then_branch, rest, k),
                Err(e) => Err(e.clone()),
            };
            self.env = saved;
            let pat = pat?;
            let then = then?;
            let els = else_code(self)?;
            return Ok(Self::wrap_binds(binds, format!("match {} with\n| {} =>\n{}\n| _ =>\n{}\nend", scrut, pat, then, els)));
        }
        let ctext = toks(&*i.cond);
        for (key, vars, term) in self.t.condeff.clone() {
            if key == ctext {
                // if <condition with an effect> { .. } else { .. }: both branches see the updated variables
                let term = self.subst_vars(&term);
                let mut names = Vec::new();
                for v in &vars {
                    names.push(self.rebind(v)?);
                }
                let c = self.fresh("c");
                let then = self.block(&i.then_branch, rest, k)?;
                let els = else_code(self)?;
                if let Some(rt) = term.strip_prefix("RES:") {
                    return Ok(format!("obind ({}) (fun '({}, {}) =>\nif {} then\n{}\nelse\n{})", rt, c, Self::tuple_of(&names), c, then, els));
                }
                return Ok(format!("let '({}, {}) := {} in\nif {} then\n{}\nelse\n{}", c, Self::tuple_of(&names), term, c, then, els));
            }
        }
        for (key, vars, term) in self.t.condmut.clone() {
            if key == ctext {
                // if <mutating condition> { return .. }  — otherwise go on with the updated variables
                if i.else_branch.is_some() {
                    return Err("a mutating condition with an else branch".into());
                }
                let term = self.subst_vars(&term);
                let then = self.block(&i.then_branch, &[], &K::NoFall)?;
                let mut names = Vec::new();
                for v in &vars {
                    names.push(self.rebind(v)?);
                }
                let pat = if names.len() == 1 { names[0].clone() } else { format!("({})", names.join(", ")) };
                let restc = self.seq(rest, k)?;
                return Ok(format!("match {} with\n| None =>\n{}\n| Some {} =>\n{}\nend", term, then, pat, restc));
            }
        }
        let mut binds = Vec::new();
        let (c, _) = self.expr(&i.cond, &mut binds)?;
        let then = self.block(&i.then_branch, rest, k)?;
        let els = else_code(self)?;
        Ok(Self::wrap_binds(binds, format!("if {} then\n{}\nelse\n{}", c, then, els)))
    }

    fn arm_body(&mut self, body: &Expr, rest: &[Stmt], k: &K) -> R<String> {
        match body {
            Expr::Block(b) => self.block(&b.block, rest, k),
            other => {
                let st = [Stmt::Expr(other.clone(), None)];
                // an arm value in tail position is the function's return value
                let depth = self.env.len();
                let kk = K::Seq(unsafe { std::mem::transmute::<&[Stmt], &[Stmt]>(rest) }, Box::new(k.clone()), depth);
                let st_ref: &[Stmt] = unsafe { std::mem::transmute::<&[Stmt], &[Stmt]>(&st[..]) };
                self.seq(st_ref, &kk)
            }
        }
    }

    fn match_stmt(&mut self, m: &ExprMatch, rest: &[Stmt], k: &K) -> R<String> {
        let mut binds = Vec::new();
        let stext = toks(&*m.expr);
        let mut prefix = String::new();
        let mut scrut_override = None;
        for (key, vars, term) in self.t.scrutmut.clone() {
            if key == stext {
                // match <call with an effect> { .. }: the arms see the updated variables
                let term = self.subst_vars(&term);
                let mut names = Vec::new();
                for v in &vars {
                    names.push(self.rebind(v)?);
                }
                let sc = self.fresh("sc");
                prefix = format!("let '({}, {}) := {} in\n", sc, Self::tuple_of(&names), term);
                scrut_override = Some(sc);
            }
        }
        let (scrut, skind) = match scrut_override {
            Some(sc) => (sc, Kind::Other),
            None => self.expr(&m.expr, &mut binds)?,
        };
        let numeric = m.arms.iter().all(|a| (a.guard.is_none() && matches!(&a.pat, Pat::Lit(_) | Pat::Range(_) | Pat::Wild(_))) || matches!(&a.pat, Pat::Ident(_)))
            && m.arms.iter().any(|a| matches!(&a.pat, Pat::Lit(_) | Pat::Range(_)))
            && m.arms.iter().all(|a| match &a.pat { Pat::Ident(i) => i.subpat.is_none() && !self.t.ctor.contains_key(&i.ident.to_string()), _ => true });
        if numeric {
            // match n { 0 => .., 1 => .., 2..=1024 => .., _ => .. }  as a chain of comparisons, in arm order
            let mut conds = Vec::new();
            let mut bodies = Vec::new();
            for a in &m.arms {
                let c = match &a.pat {
                    Pat::Lit(l) => match &l.lit {
                        // a string pattern: comparison of the bytes
                        Lit::Str(st) => Some(format!("(bytes_eqb {} {})", scrut, byte_list(st.value().as_bytes()))),
                        Lit::ByteStr(st) => Some(format!("(bytes_eqb {} {})", scrut, byte_list(&st.value()))),
                        _ => Some(format!("({} =? {})", scrut, toks(l))),
                    },
                    Pat::Range(r) => {
                        let mut parts = Vec::new();
                        if let Some(lo) = &r.start {
                            parts.push(format!("({} <=? {})", toks(lo), scrut));
                        }
                        if let Some(hi) = &r.end {
                            match r.limits {
                                syn::RangeLimits::Closed(_) => parts.push(format!("({} <=? {})", scrut, toks(hi))),
                                syn::RangeLimits::HalfOpen(_) => parts.push(format!("({} <? {})", scrut, toks(hi))),
                            }
                        }
                        Some(format!("({})", parts.join(" && ")))
                    }
                    _ => None,
                };
                let saved = self.env.clone();
                let mut c = c;
                if let Pat::Ident(i) = &a.pat {
                    // an arm that names the value: catch-all, or `s if cond(s)`
                    self.env.push(HashMap::new());
                    self.env.last_mut().unwrap().insert(i.ident.to_string(), (scrut.clone(), skind));
                    if let Some((_, g)) = &a.guard {
                        let mut gb = Vec::new();
                        let gc = self.expr(g, &mut gb);
                        if !gb.is_empty() {
                            self.env = saved;
                            return Err("partial expression in a match guard".into());
                        }
                        match gc {
                            Ok((gc, _)) => c = Some(gc),
                            Err(e) => { self.env = saved; return Err(e); }
                        }
                    }
                }
                let body = self.arm_body(&a.body, rest, k);
                self.env = saved;
                conds.push(c);
                bodies.push(body?);
            }
            let mut out = String::new();
            let mut closed = false;
            for (c, b) in conds.iter().zip(bodies.iter()) {
                match c {
                    Some(c) => {
                        let _ = write!(out, "if {} then\n{}\nelse ", c, b);
                    }
                    None => {
                        out.push_str(b);
                        closed = true;
                        break;
                    }
                }
            }
            if !closed {
                return Err("a match on numbers needs a catch-all arm".into());
            }
            return Ok(Self::wrap_binds(binds, format!("({})", out)));
        }
        // the catch-all arm (needed as the fall-through of guarded arms)
        let mut fallback: Option<&syn::Arm> = None;
        for a in &m.arms {
            if matches!(a.pat, Pat::Wild(_)) && a.guard.is_none() {
                fallback = Some(a);
            }
        }
        // the pattern of an arm without its `ref` / `mut` binding modes
        let pat_key = |p: &Pat| -> String {
            norm(&format!(" {} ", p.to_token_stream()).replace("(", " ( ").replace(" ref ", " ").replace(" mut ", " "))
        };
        let mut consumed: Vec<usize> = Vec::new();
        let mut out = format!("match {} with\n", scrut);
        for (ai, a) in m.arms.iter().enumerate() {
            if consumed.contains(&ai) {
                continue; // already emitted as the else-branch of the guarded arm with the same pattern
            }
            let saved = self.env.clone();
            self.env.push(HashMap::new());
            let pat = self.pattern(&a.pat)?;
            let body = if let Some((_, g)) = &a.guard {
                // where a failed guard goes: a later unguarded arm with the same pattern, else the `_` arm
                let same = m.arms.iter().enumerate().skip(ai + 1).find(|(_, b)| b.guard.is_none() && pat_key(&b.pat) == pat_key(&a.pat));
                if let Some((bi, _)) = same {
                    consumed.push(bi);
                }
                let fb = same.map(|(_, b)| b).or(fallback).ok_or("a guarded arm needs a later arm with the same pattern or a catch-all `_` arm")?;
                let mut gb = Vec::new();
                let (gc, _) = self.expr(g, &mut gb)?;
                if !gb.is_empty() {
                    return Err("partial expression in a match guard".into());
                }
                let then = self.arm_body(&a.body, rest, k)?;
                let saved2 = self.env.clone();
                let els = self.arm_body(&fb.body, rest, k)?;
                self.env = saved2;
                format!("if {} then\n{}\nelse\n{}", gc, then, els)
            } else {
                self.arm_body(&a.body, rest, k)?
            };
            self.env = saved;
            let _ = write!(out, "| {} =>\n{}\n", pat, body);
        }
        // a match on a Result value: a panic inside the callee is not one of the source's arms
        let on_result = m.arms.iter().any(|a| matches!(&a.pat, Pat::TupleStruct(ts) if { let n = toks(&ts.path); n == "Ok" || n == "Err" }));
        let has_wild = m.arms.iter().any(|a| matches!(a.pat, Pat::Wild(_)) && a.guard.is_none());
        if on_result && !has_wild {
            out.push_str("| Panic s_panic => Panic s_panic\n");
        }
        out.push_str("end");
        Ok(Self::wrap_binds(binds, format!("{}{}", prefix, out)))
    }
}

// ---- does a piece of code return a (non-error) VALUE early, and which variables does it assign?
struct Scan {
    err_is_value: bool, // mode mutresult: `return Err(..)` does not short-circuit through the monad, it is a value
    unit_return: bool, // a bare `return;`
    has_break: bool,
    value_return: bool,
    assigned: Vec<String>,
    mutmethods: Vec<String>,
    stmt_vars: Vec<(String, Vec<String>)>, // statement / condition texts of the table that assign variables
    helpers: HashMap<String, Vec<String>>, // `self.helper(..)` of the same impl: the self.* variables its body assigns
}
impl<'ast> syn::visit::Visit<'ast> for Scan {
    fn visit_expr_return(&mut self, r: &'ast syn::ExprReturn) {
        let is_err = match &r.expr {
            Some(e) => match &**e {
                Expr::Call(c) => toks(&c.func) == "Err",
                _ => false,
            },
            None => false,
        };
        if r.expr.is_none() {
            self.unit_return = true;
        }
        if !is_err || self.err_is_value {
            self.value_return = true;
        }
        syn::visit::visit_expr_return(self, r);
    }
    fn visit_expr_assign(&mut self, a: &'ast syn::ExprAssign) {
        let n = toks(&a.left);
        if !self.assigned.contains(&n) {
            self.assigned.push(n);
        }
        syn::visit::visit_expr_assign(self, a);
    }
    fn visit_expr_closure(&mut self, _c: &'ast syn::ExprClosure) {}
    fn visit_expr_break(&mut self, _b: &'ast syn::ExprBreak) {
        self.has_break = true;
    }
    fn visit_expr_loop(&mut self, l: &'ast syn::ExprLoop) {
        // a `break` inside a nested loop belongs to that loop
        let hb = self.has_break;
        syn::visit::visit_expr_loop(self, l);
        self.has_break = hb;
    }
    fn visit_expr(&mut self, e: &'ast Expr) {
        if !self.stmt_vars.is_empty() {
            let t = toks(e);
            for (k, vs) in &self.stmt_vars {
                if *k == t {
                    for v in vs {
                        if !self.assigned.contains(v) {
                            self.assigned.push(v.clone());
                        }
                    }
                }
            }
        }
        syn::visit::visit_expr(self, e);
    }
    fn visit_expr_binary(&mut self, b: &'ast syn::ExprBinary) {
        if is_assign_op(&b.op) {
            let n = toks(&b.left);
            if !self.assigned.contains(&n) {
                self.assigned.push(n);
            }
        }
        syn::visit::visit_expr_binary(self, b);
    }
    fn visit_expr_method_call(&mut self, m: &'ast syn::ExprMethodCall) {
        if toks(&m.receiver) == "self" {
            if let Some(vs) = self.helpers.get(&m.method.to_string()).cloned() {
                for v in vs {
                    if !self.assigned.contains(&v) {
                        self.assigned.push(v);
                    }
                }
            }
        }
        let key = format!("{}/{}", m.method, m.args.len());
        if self.mutmethods.contains(&key) {
            let n = match &*m.receiver {
                Expr::Index(ix) if !matches!(&*ix.index, Expr::Range(_)) => toks(&ix.expr),
                other => toks(other),
            };
            if !self.assigned.contains(&n) {
                self.assigned.push(n);
            }
        }
        syn::visit::visit_expr_method_call(self, m);
    }
}

// a string / char literal as the list of its UTF-8 bytes
fn byte_list(b: &[u8]) -> String {
    let parts: Vec<String> = b.iter().map(|x| format!("x{:02x}", x)).collect();
    format!("[{}]", parts.join("; "))
}

fn is_assign_op(op: &BinOp) -> bool {
    matches!(op, BinOp::AddAssign(_) | BinOp::SubAssign(_) | BinOp::MulAssign(_) | BinOp::DivAssign(_)
        | BinOp::ShrAssign(_) | BinOp::ShlAssign(_) | BinOp::BitAndAssign(_) | BinOp::BitOrAssign(_))
}

fn scan_expr_with(e: &Expr, mut sc: Scan) -> Scan {
    syn::visit::Visit::visit_expr(&mut sc, e);
    sc
}

fn scan_block_with(b: &Block, mut sc: Scan) -> Scan {
    syn::visit::Visit::visit_block(&mut sc, b);
    sc
}

// ---------------------------------------------------------------------------------------------
// the kind of a value from its (whitespace-free) Rust type
fn type_kind(t: &str) -> Kind {
    let t = t.trim_start_matches('&');
    match t {
        "[u8]" | "Vec<u8>" | "Data" | "Hash" | "Nonce" => Kind::Bytes,
        "u8" | "u16" | "u32" | "u64" | "usize" => Kind::Num,
        "Tag" => Kind::Tag,
        _ if t.starts_with("[u8;") => Kind::Bytes,
        _ => Kind::Other,
    }
}

fn parse_kind(s: &str) -> Kind {
    match s {
        "num" => Kind::Num,
        "bytes" => Kind::Bytes,
        "tagk" => Kind::Tag,
        _ => Kind::Other,
    }
}

fn parse_targets(text: &str) -> (String, Vec<Target>) {
    let mut prelude = String::new();
    let mut out: Vec<Target> = Vec::new();
    let mut in_prelude = false;
    let mut in_raw = false;
    for raw in text.lines() {
        let line = raw.trim_end();
        if in_raw {
            if line.trim() == "[end]" {
                in_raw = false;
            } else {
                let t = out.last_mut().unwrap();
                let r = t.raw.as_mut().unwrap();
                r.push_str(line);
                r.push('\n');
            }
            continue;
        }
        if in_prelude {
            if line.trim() == "[end]" {
                in_prelude = false;
            } else {
                prelude.push_str(line);
                prelude.push('\n');
            }
            continue;
        }
        let l = line.trim();
        if l.is_empty() || l.starts_with('#') {
            continue;
        }
        if l == "[prelude]" {
            in_prelude = true;
            continue;
        }
        if l == "[coq]" {
            in_raw = true;
            out.push(Target { raw: Some(String::new()), ..Default::default() });
            continue;
        }
        if l == "[target]" {
            out.push(Target { panic_site: "0%nat".into(), retmode: "value".into(), unwrap_fn: "unwrap_p".into(), ..Default::default() });
            continue;
        }
        let t = out.last_mut().expect("directive before [target]");
        t.spec_text.push_str(l);
        t.spec_text.push('\n');
        let (key, rest) = match l.split_once(' ') {
            Some(x) => x,
            None => (l, ""),
        };
        let rest = rest.trim();
        let arrow = |s: &str| -> (String, String) {
            let (a, b) = s.split_once("=>").expect("missing =>");
            (a.trim().to_string(), b.trim().to_string())
        };
        match key {
            "file" => t.file = rest.to_string(),
            "fn" => t.func = rest.to_string(),
            "coq" => t.coq = rest.to_string(),
            "ret" => t.ret = rest.to_string(),
            "retmode" => t.retmode = rest.to_string(),
            "site" => t.panic_site = rest.to_string(),
            "scope" => t.scope = rest.to_string(),
            "extra" => {
                let (a, ty) = rest.split_once(':').expect("extra needs a type");
                t.extra_params.push((a.trim().to_string(), ty.trim().to_string()));
            }
            "fld" | "fldn" | "fldb" => {
                let (a, b) = arrow(rest);
                let k = if key == "fldn" { Kind::Num } else if key == "fldb" { Kind::Bytes } else { Kind::Other };
                t.fields.insert(a, (b, k));
            }
            "imap" => {
                let (a, b) = arrow(rest);
                t.imaps.insert(norm(&a), b);
            }
            "mutmethod" => {
                let (a, b) = arrow(rest);
                t.mutmethod.insert(norm(&a), b);
            }
            "pmutmethod" => {
                let (a, b) = arrow(rest);
                t.pmutmethod.insert(norm(&a), b);
            }
            "smap" => {
                // smap <rust statement> => <var> := <coq term>
                // several updates: v1 := t1 ;; v2 := t2 (all right-hand sides see the old values)
                let (a, b) = arrow(rest);
                let mut vs = Vec::new();
                let mut ts = Vec::new();
                for part in b.split(";;") {
                    let (v, term) = part.split_once(":=").expect("smap needs var := term");
                    vs.push(v.trim().to_string());
                    ts.push(term.trim().to_string());
                }
                t.smap.push((norm(&a), vs, ts));
            }
            "letmap" | "pletmap" => {
                let (a, b) = arrow(rest);
                t.letmap.insert(a, (b, key == "pletmap"));
            }
            "arith" => t.wrap64 = rest == "wrap64",
            "rmutmethod" => {
                let (a, b) = arrow(rest);
                t.rmutmethod.insert(norm(&a), b);
            }
            "condmut" => {
                // condmut <condition> => v1, v2 := <option of the new values; None when the condition holds>
                let (a, b) = arrow(rest);
                let (vs, term) = b.split_once(":=").expect("condmut needs vars := term");
                t.condmut.push((norm(&a), vs.split(',').map(|v| v.trim().to_string()).collect(), term.trim().to_string()));
            }
            "scrutmut" | "condeff" | "leteff" | "psmap" => {
                let (a, b) = arrow(rest);
                let (vs, term) = b.split_once(":=").expect("needs vars := term");
                let e = (norm(&a), vs.split(',').map(|v| v.trim().to_string()).collect(), term.trim().to_string());
                match key {
                    "scrutmut" => t.scrutmut.push(e),
                    "condeff" => t.condeff.push(e),
                    "leteff" => t.leteff.push(e),
                    _ => t.psmap.push(e),
                }
            }
            "loopfuel" => t.loopfuel = Some(rest.to_string()),
            "restype" => t.restype = Some(rest.to_string()),
            "retstate" => t.retstate = rest.split_whitespace().map(|s| s.to_string()).collect(),
            "retvars" => t.retvars = rest.split_whitespace().map(|s| s.to_string()).collect(),
            "recfuel" => t.recfuel = Some(rest.to_string()),
            "unwrapfn" => t.unwrap_fn = rest.to_string(),
            "place" => {
                // place <expression> => <variable> ;; <getter term> ;; <setter term with $v>
                let (a, b) = arrow(rest);
                let parts: Vec<&str> = b.split(";;").collect();
                if parts.len() != 3 { panic!("place needs var ;; getter ;; setter"); }
                t.places.push((norm(&a), parts[0].trim().to_string(), parts[1].trim().to_string(), parts[2].trim().to_string()));
            }
            "fldset" => {
                let (a, b) = arrow(rest);
                t.fldset.insert(a, b);
            }
            "placemethod" => {
                let (a, b) = arrow(rest);
                t.placemethod.insert(norm(&a), b);
            }
            "onlystmt" => t.onlystmt = Some(norm(rest)),
            "stmtcount" => t.stmtcount = rest.trim().parse().expect("stmtcount needs a number"),
            "diverge" => {
                let (a, b) = arrow(rest);
                t.diverge.insert(norm(&a), b);
            }
            "pcondeff" => {
                let (a, b) = arrow(rest);
                let (vs, term) = b.split_once(":=").expect("needs vars := term");
                t.condeff.push((norm(&a), vs.split(',').map(|v| v.trim().to_string()).collect(), format!("RES:{}", term.trim())));
            }
            "explode" => t.explode.push(norm(rest)),
            "skip" => t.skip_macros = rest.split_whitespace().map(|s| s.to_string()).collect(),
            "param" => {
                // param <rust> <coq> <kind> : <coq type>
                let (a, ty) = rest.split_once(':').expect("param needs a type");
                let p: Vec<&str> = a.split_whitespace().collect();
                t.params.push((p[0].to_string(), p[1].to_string(), ty.trim().to_string()));
                t.kinds.insert(p[0].to_string(), parse_kind(p.get(2).copied().unwrap_or("other")));
            }
            "kind" => {
                let p: Vec<&str> = rest.split_whitespace().collect();
                t.kinds.insert(p[0].to_string(), parse_kind(p[1]));
            }
            "map" | "mapn" | "mapb" => {
                let (a, b) = arrow(rest);
                let k = if key == "mapn" { Kind::Num } else if key == "mapb" { Kind::Bytes } else { Kind::Other };
                t.pure_map.push((norm(&a), b, k));
            }
            "pmap" | "pmapn" | "pmapb" => {
                let (a, b) = arrow(rest);
                let k = if key == "pmapn" { Kind::Num } else if key == "pmapb" { Kind::Bytes } else { Kind::Other };
                t.part_map.push((norm(&a), b, k));
            }
            "method" | "methodn" | "methodb" | "pmethod" | "pmethodn" | "pmethodb" => {
                let (a, b) = arrow(rest);
                let partial = key.starts_with('p');
                let k = if key.ends_with('n') { Kind::Num } else if key.ends_with('b') { Kind::Bytes } else { Kind::Other };
                t.method.insert(norm(&a), (b, k, partial));
            }
            "call" | "calln" | "callb" | "pcall" | "pcalln" | "pcallb" => {
                let (a, b) = arrow(rest);
                let partial = key.starts_with('p');
                let k = if key.ends_with('n') { Kind::Num } else if key.ends_with('b') { Kind::Bytes } else { Kind::Other };
                t.call.insert(norm(&a), (b, k, partial));
            }
            "ctor" => {
                let (a, b) = arrow(rest);
                t.ctor.insert(norm(&a), b);
            }
            "const" | "constn" | "constb" => {
                let (a, b) = arrow(rest);
                let k = if key == "constn" { Kind::Num } else if key == "constb" { Kind::Bytes } else { Kind::Other };
                t.consts.insert(norm(&a), (b, k));
            }
            other => panic!("unknown directive {}", other),
        }
    }
    (prelude, out)
}

fn find_fn<'f>(file: &'f syn::File, name: &str) -> Option<(&'f syn::Signature, &'f Block)> {
    let (ty, f) = match name.split_once("::") {
        Some((a, b)) => (Some(a), b),
        None => (None, name),
    };
    // a definition compiled only with an optional cargo feature (`#[cfg(feature = "..")]`) or only for tests
    // is not the one the default build runs; `#[cfg(not(any(feature = ..)))]` is
    let compiled_out = |attrs: &Vec<syn::Attribute>| -> bool {
        attrs.iter().any(|a| {
            let t = toks(a);
            t.starts_with("#[cfg(feature=") || t.starts_with("#[cfg(test)") || t.starts_with("#[cfg(all(feature=")
        })
    };
    for it in &file.items {
        match it {
            Item::Fn(x) if ty.is_none() && x.sig.ident == f && !compiled_out(&x.attrs) => return Some((&x.sig, &x.block)),
            Item::Impl(im) if ty.is_some() && toks(&im.self_ty) == ty.unwrap() => {
                for ii in &im.items {
                    if let syn::ImplItem::Fn(m) = ii {
                        if m.sig.ident == f {
                            return Some((&m.sig, &m.block));
                        }
                    }
                }
            }
            // a provided method of a trait (`trait T { fn f(&self) -> .. { body } }`), addressed as T::f
            Item::Trait(tr) if ty.is_some() && tr.ident == ty.unwrap() => {
                for ti in &tr.items {
                    if let syn::TraitItem::Fn(m) = ti {
                        if m.sig.ident == f {
                            if let Some(b) = &m.default {
                                return Some((&m.sig, b));
                            }
                        }
                    }
                }
            }
            _ => {}
        }
    }
    None
}

// the value of a constant integer expression: literals, + - * / % << >>, parentheses, casts, and
// constants already known
fn const_eval(e: &Expr, known: &HashMap<String, (String, Kind)>) -> Option<u128> {
    match e {
        Expr::Lit(l) => match &l.lit {
            Lit::Int(i) => i.base10_digits().parse::<u128>().ok(),
            _ => None,
        },
        Expr::Paren(p) => const_eval(&p.expr, known),
        Expr::Group(p) => const_eval(&p.expr, known),
        Expr::Cast(c) => const_eval(&c.expr, known),
        Expr::Path(p) => known.get(&toks(p)).and_then(|(v, k)| if *k == Kind::Num { v.parse::<u128>().ok() } else { None }),
        Expr::Binary(b) => {
            let l = const_eval(&b.left, known)?;
            let r = const_eval(&b.right, known)?;
            match b.op {
                BinOp::Add(_) => l.checked_add(r),
                BinOp::Sub(_) => l.checked_sub(r),
                BinOp::Mul(_) => l.checked_mul(r),
                BinOp::Div(_) => l.checked_div(r),
                BinOp::Rem(_) => l.checked_rem(r),
                BinOp::Shl(_) => l.checked_shl(r as u32),
                BinOp::Shr(_) => l.checked_shr(r as u32),
                _ => None,
            }
        }
        _ => None,
    }
}

// local `const NAME: T = <constant integer expression>;` declarations of the function body become table constants
fn local_consts(b: &Block, t: &mut Target) {
    for s in &b.stmts {
        if let Stmt::Item(Item::Const(c)) = s {
            if let Some(v) = const_eval(&c.expr, &t.consts) {
                t.consts.entry(c.ident.to_string()).or_insert((v.to_string(), Kind::Num));
            }
        }
    }
}

// module-level `const NAME: T = <constant integer expression>;` (in source order, so later ones may use earlier ones)
fn module_consts(f: &syn::File, t: &mut Target) {
    for it in &f.items {
        if let Item::Const(c) = it {
            if let Some(v) = const_eval(&c.expr, &t.consts) {
                t.consts.entry(c.ident.to_string()).or_insert((v.to_string(), Kind::Num));
            }
        }
    }
}

fn main() {
    let args: Vec<String> = std::env::args().collect();
    let (repo, tfile, out) = (&args[1], &args[2], &args[3]);
    let (prelude, targets) = parse_targets(&std::fs::read_to_string(tfile).expect("targets file"));
    let mut text = String::new();
    text.push_str("(* GENERATED by /verif/rs2coq from /repo's current sources. DO NOT EDIT. *)\n");
    text.push_str(&prelude);
    let mut failed = false;
    // definitions that could not be produced on this run: targets (and glue blocks) that rely on them
    // are left out too, everything else is still generated, so that only the theorems about the
    // affected functions lose their subject
    let mut missing: Vec<String> = Vec::new();
    // --skip a,b,c : generated definitions that did not type-check in Coq on an earlier attempt of this run
    let skip: Vec<String> = args
        .iter()
        .position(|a| a == "--skip")
        .and_then(|i| args.get(i + 1))
        .map(|s| s.split(',').filter(|x| !x.is_empty()).map(|x| x.to_string()).collect())
        .unwrap_or_default();
    for t0 in targets {
        if t0.raw.is_none() && skip.contains(&t0.coq) {
            eprintln!("rs2coq: {} :: {} left out: its translation does not type-check", t0.file, t0.func);
            text.push_str(&format!("\n(* NOT GENERATED on this run: the translation of {} :: {} does not type-check *)\n", t0.file, t0.func));
            missing.push(t0.coq.clone());
            failed = true;
            continue;
        }
        if let Some(r) = &t0.raw {
            if let Some(dep) = missing.iter().find(|m| mentions(r, m)).cloned() {
                for name in defined_names(r) {
                    eprintln!("rs2coq: glue definition {} left out: it relies on {}", name, dep);
                    missing.push(name);
                }
                failed = true;
                continue;
            }
            text.push_str("\n");
            text.push_str(r);
            continue;
        }
        if let Some(dep) = missing.iter().find(|m| mentions(&t0.spec_text, m)).cloned() {
            eprintln!("rs2coq: {} :: {} left out: it relies on {}", t0.file, t0.func, dep);
            text.push_str(&format!("\n(* NOT GENERATED on this run: {} :: {} relies on {} *)\n", t0.file, t0.func, dep));
            missing.push(t0.coq.clone());
            failed = true;
            continue;
        }
        match translate_target(repo, &t0) {
            Ok(def) => text.push_str(&def),
            Err(e) => {
                eprintln!("rs2coq: {}", e);
                text.push_str(&format!("\n(* NOT GENERATED on this run: {} *)\n", e.replace("*)", "* )")));
                missing.push(t0.coq.clone());
                failed = true;
            }
        }
    }
    let old = std::fs::read_to_string(out).unwrap_or_default();
    if old != text {
        std::fs::write(out, text).expect("write output");
        println!("{} regenerated", out);
    }
    if failed {
        std::process::exit(2); // partial: the file holds every definition that could be produced
    }
}

// does `text` mention the identifier `name` (as a whole word)?
fn mentions(text: &str, name: &str) -> bool {
    let is_id = |c: char| c.is_alphanumeric() || c == '_' || c == '\'';
    let mut start = 0;
    while let Some(pos) = text[start..].find(name) {
        let a = start + pos;
        let b = a + name.len();
        let before_ok = a == 0 || !is_id(text[..a].chars().last().unwrap());
        let after_ok = b >= text.len() || !is_id(text[b..].chars().next().unwrap());
        if before_ok && after_ok {
            return true;
        }
        start = b;
    }
    false
}

fn defined_names(raw: &str) -> Vec<String> {
    let mut out = Vec::new();
    for l in raw.lines() {
        let l = l.trim_start();
        for kw in ["Definition ", "Fixpoint "] {
            if let Some(rest) = l.strip_prefix(kw) {
                if let Some(n) = rest.split_whitespace().next() {
                    out.push(n.to_string());
                }
            }
        }
    }
    out
}

fn translate_target(repo: &str, t0: &Target) -> Result<String, String> {
    let mut text = String::new();
    let mut t = t0.clone();
    let src = std::fs::read_to_string(format!("{}/{}", repo, t.file)).map_err(|e| format!("{}: {}", t.file, e))?;
    let file = syn::parse_file(&src).map_err(|e| format!("{} does not parse: {}", t.file, e))?;
    let (sig, block) = find_fn(&file, &t.func).ok_or(format!("function {} not found in {}", t.func, t.file))?;
    // the parameter list is part of the contract
    let rust_params: Vec<String> = sig
        .inputs
        .iter()
        .filter_map(|a| match a {
            syn::FnArg::Typed(p) => Some(match &*p.pat {
                Pat::Ident(i) => i.ident.to_string(), // `mut x` is the parameter x
                other => toks(other),
            }),
            syn::FnArg::Receiver(_) => None,
        })
        .collect();
    let declared: Vec<String> = t.params.iter().map(|p| p.0.clone()).filter(|p| p != "self" && !p.starts_with("self.") && !p.starts_with("env.")).collect(); // env.x: a piece of the environment (a generator, a clock) as a variable
    if rust_params != declared && t.onlystmt.is_none() {
        return Err(format!("{} :: {}: parameters are {:?}, the table declares {:?}", t.file, t.func, rust_params, declared));
    }
    module_consts(&file, &mut t);
    local_consts(block, &mut t);
    let mut tr = Tr { t: &t, fresh: 0, env: vec![HashMap::new()], loop_depth: 0, loop_sr: Vec::new(), loop_brk: Vec::new(), file: Some(&file), self_ty: t.func.split_once("::").map(|x| x.0.to_string()), mode_override: Vec::new(), inline_depth: 0, expect_ty: None, ret_is_break: false, place_alias: HashMap::new(), exploded: HashMap::new(), field_types: struct_field_types(&file) };
    let kw = if t.recfuel.is_some() { "Fixpoint" } else { "Definition" };
    let mut header = format!("{} {}", kw, t.coq);
    if t.recfuel.is_some() {
        header.push_str(" (fuel : nat)");
    }
    for (r, c, ty) in &t.params {
        let kind = t.kinds.get(r).cloned().unwrap_or(Kind::Other);
        tr.env[0].insert(r.clone(), (c.clone(), kind));
        let _ = write!(header, " ({} : {})", c, ty);
    }
    for (c, ty) in &t.extra_params {
        header = header.replacen(&format!("{} {}", kw, t.coq), &format!("{} {} ({} : {})", kw, t.coq, c, ty), 1);
    }
    if t.recfuel.is_some() {
        header.push_str(" {struct fuel}");
    }
    let _ = write!(header, " : {} ({}) :=\n", t.restype.clone().unwrap_or("res".to_string()), t.ret);
    // onlystmt: the one statement of the body (at any depth) whose text starts with the given prefix
    let picked: Option<Vec<Stmt>> = match &t.onlystmt {
        Some(prefix) => {
            struct Find<'p> { prefix: &'p str, count: usize, found: Option<Vec<Stmt>> }
            impl<'ast, 'p> syn::visit::Visit<'ast> for Find<'p> {
                fn visit_block(&mut self, b: &'ast Block) {
                    if self.found.is_some() {
                        return;
                    }
                    for (i, st) in b.stmts.iter().enumerate() {
                        if toks(st).starts_with(self.prefix) {
                            let end = (i + self.count.max(1)).min(b.stmts.len());
                            self.found = Some(b.stmts[i..end].to_vec());
                            return;
                        }
                    }
                    syn::visit::visit_block(self, b);
                }
            }
            let mut f = Find { prefix: prefix.as_str(), count: t.stmtcount, found: None };
            syn::visit::Visit::visit_block(&mut f, block);
            Some(f.found.ok_or(format!("{} :: {}: no statement starts with `{}`", t.file, t.func, prefix))?)
        }
        None => None,
    };
    let stmts: &[Stmt] = match &picked {
        Some(v) => unsafe { std::mem::transmute::<&[Stmt], &[Stmt]>(&v[..]) },
        None => &block.stmts,
    };
    let body = tr
        .seq(stmts, &K::End)
        .map_err(|e| format!("{} :: {}: outside the translated subset: {}", t.file, t.func, e))?;
    // a recursive function: the recursive calls of the table use fuel'
    let body = match &t.recfuel {
        Some(site) => format!("match fuel with\n| O => Panic {}\n| S fuel' =>\n{}\nend", site, body),
        None => body,
    };
    text.push_str(&format!("\n(* {} :: {} *)\n", t.file, t.func));
    text.push_str(&header);
    if t.scope.is_empty() {
        text.push_str(&body);
    } else {
        text.push_str(&format!("({}\n)%{}", body, t.scope));
    }
    text.push_str(".\n");
    Ok(text)
}
